#!/bin/sh
# Offline setup: verifies the interpreter and installs hypothesis from the local wheelhouse if it is missing.
set -e
PY=/venv/bin/python
[ -x "$PY" ] || { echo "missing $PY"; exit 1; }
if ! "$PY" -c "import hypothesis" 2>/dev/null; then
  /venv/bin/pip install --no-index --find-links /opt/veriftools/wheels hypothesis
fi
"$PY" -c "import hypothesis, black, yaml; print('hypothesis', hypothesis.__version__)"
chmod +x /verif/check 2>/dev/null || true
