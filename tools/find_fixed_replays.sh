#!/bin/sh
# tools/find_fixed_replays.sh <commit> <PID> [<PID> ...]
# Differential search: a replay that VIOLATES the property on <commit>^ and is clean on <commit>. Keeps the first one per
# property as replays/<PID>/fixed_<commit>.json. Scratch worktrees live under /tmp and are removed afterwards.
c="$1"; shift
cd /verif || exit 2
P=/tmp/fx_parent_$c; C=/tmp/fx_commit_$c
git -C /repo worktree add --detach "$P" "$c^" >/dev/null 2>&1 || exit 2
git -C /repo worktree add --detach "$C" "$c" >/dev/null 2>&1 || exit 2
trap 'git -C /repo worktree remove --force "$P"; git -C /repo worktree remove --force "$C"' EXIT
for pid in "$@"; do
  rm -rf "found/$pid"
  VERIF_REPO="$P" ./check "$pid" --tier quick >/tmp/fx_out_$c.txt 2>&1
  kept=""
  for f in $(grep "^VIOLATION" /tmp/fx_out_$c.txt | sed 's/.*replay=\([^ ]*\).*/\1/'); do
    if VERIF_REPO="$C" ./check "$pid" --replay "$f" >/dev/null 2>&1; then
      if ! VERIF_REPO="$P" ./check "$pid" --replay "$f" >/dev/null 2>&1; then
        mkdir -p "replays/$pid"; cp "$f" "replays/$pid/fixed_$c.json"; kept="$f"; break
      fi
    fi
  done
  echo "commit $c property $pid: ${kept:-NO differential replay found} ($(grep -c '^VIOLATION' /tmp/fx_out_$c.txt) violations at parent; $(tail -1 /tmp/fx_out_$c.txt | cut -c1-120))"
done
rm -f /tmp/fx_out_$c.txt
