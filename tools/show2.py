"""Dev aid: python tools/show2.py <kind> found/Cxx/x.json -> case, emitted text, parsed IR (for {ir, opts} cases)."""
import json, sys, os, pprint
sys.path.insert(0, os.path.dirname(os.path.dirname(os.path.abspath(__file__))))
from lib import env
env.bootstrap()
from lib import domain, kinds
rep = json.load(open(sys.argv[2])); case = rep["case"]; kind = sys.argv[1]
print(json.dumps(case))
text = kinds.emit_text(kind, domain.to_ir(case["ir"]), case["opts"]); print(text)
pprint.pprint(kinds.parse_text(kind, text))
