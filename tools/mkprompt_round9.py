"""Round 9: builds the sub-agent prompt for one property from the round-8 example prompt (property fields and the list of
changes already held are substituted; nothing else from /verif is shown to the agent). Usage: mkprompt_round9.py <PID> > prompt.txt"""
import json, sys, glob, re
pid = sys.argv[1]
ex = open('/verif/tools/mutant_prompt_example_round8_C01.txt').read()
props = {json.loads(l)['id']: json.loads(l) for l in open('/verif/properties.jsonl')}
p = props[pid]
c01 = props['C01']
head, tail = ex.split('These changes were already produced by other people for this property;')
tail_intro, rest = tail.split('\n', 1)
also = rest[rest.index('Also avoid these'):]
head = head.replace('/tmp/wt8_C01', '/tmp/wt9_%s' % pid).replace('/tmp/mut8_C01', '/tmp/mut9_%s' % pid).replace('("C01")', '("%s")' % pid)
for k_old, k_new in ((c01['title'], p['title']), (c01['statement'], p['statement']), (c01['quantifier']['text'], p['quantifier']['text'])):
    if k_old is None: continue
    assert k_old in head, k_old[:40]
    head = head.replace(k_old, k_new)
lines = []
for m in sorted(glob.glob('/verif/seeded/%s_m*/meta.json' % pid)):
    s = json.load(open(m)).get('summary', '')
    lines.append('  - ' + re.sub(r'\s+', ' ', s)[:420])
print(head + 'These changes were already produced by other people for this property;' + tail_intro + '\n' + '\n'.join(lines) + '\n' + also)
