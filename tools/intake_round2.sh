#!/bin/sh
# tools/intake_round2.sh <PID> <dir-with-m1,m2> [first-index]: copies independently produced changes into seeded/<PID>_m<k>
# (k continuing after the existing ones), confirms them in a scratch worktree and runs the detection matrix on them.
set -e
here=$(cd "$(dirname "$0")/.." && pwd)
pid=$1; src=$2
k=${3:-3}
names=""
for m in "$src"/m1 "$src"/m2; do
  [ -f "$m/patch.diff" ] || continue
  while [ -e "$here/seeded/${pid}_m$k" ] || [ -e "$here/seeded/_dropped/${pid}_m$k" ]; do k=$((k+1)); done
  d="$here/seeded/${pid}_m$k"
  mkdir -p "$d"
  cp "$m/patch.diff" "$m/demo.py" "$m/meta.json" "$d/"
  names="$names ${pid}_m$k"
  k=$((k+1))
done
tmp=$(mktemp -d /tmp/intake.XXXXXX)
for n in $names; do ln -s "$here/seeded/$n" "$tmp/$n"; done
python3 "$here/tools/confirm_seeded.py" "$tmp"
rm -rf "$tmp"
python3 "$here/tools/mutant_matrix.py" $names
