"""Regenerates MANIFEST.json from the table below (kept in one place so it is always valid)."""
import json, os
HERE = os.path.dirname(os.path.dirname(os.path.abspath(__file__)))
props = [json.loads(l) for l in open(os.path.join(HERE, "properties.jsonl"))]
CLAIMED = json.load(open(os.path.join(HERE, "tools", "claims.json")))
checks = []
na = []
for p in props:
    pid = p["id"]
    c = CLAIMED.get(pid)
    if c is None or c.get("not_applicable"):
        na.append({"property_id": pid, "reason": (c or {}).get("reason", "check not built yet in this round; see DESIGN.md section 5 for its design")})
        continue
    checks.append({
        "property_id": pid,
        "quick_cmd": "./check %s --tier quick" % pid,
        "thorough_cmd": "./check %s --tier thorough" % pid,
        "evidence_file": "evidence/%s.json" % pid,
        "replay_cmd_template": "./check %s --replay {path}" % pid,
        "engine": "survey",
        "level_claimed": {"category": c["level"], "text": c["text"], "design_ref": "DESIGN.md section 5, %s" % pid},
        "level_note": c["note"],
        "technique": c["technique"],
    })
man = {
    "version": 1,
    "setup_cmd": "./setup.sh",
    "hooks": {
        "guard": "DOCTRANS_VERIF",
        "enable": "no source hooks exist: checks import doctrans from /repo's working tree in a fresh process and observe it from outside (module attribute shadowing for fault injection, child processes for environment sweeps)",
        "baseline_off_cmd": "cd /repo && /venv/bin/python -m pytest -ra -q -p no:cacheprovider --timeout=900 --continue-on-collection-errors",
        "source_commits": [],
        "add_only": True,
    },
    "engines": [{"name": "survey", "path": "lib/runner.py", "serves_properties": [c["property_id"] for c in checks],
                 "kind_free_text": "Hypothesis-driven generated-input survey: collect discrepancies against an explicit oracle, bucket by root cause, attribute to known findings by input shape AND symptom, minimise what is left into replay files"}],
    "checks": checks,
    "not_applicable": na,
    "notes": "All checks: ./check <ID> --tier quick|thorough [--replay FILE]; exit 0 held / 1 VIOLATION / 2 harness error. Known findings: known_findings.json (never written at run time).",
}
json.dump(man, open(os.path.join(HERE, "MANIFEST.json"), "w"), indent=1)
print("checks:", [c["property_id"] for c in checks], "not claimed:", len(na))
