#!/bin/sh
# tools/mutant.sh <dir with patch.diff> <check id>...   applies the change to /repo, runs the quick checks, always reverts.
d="$(cd "$1" && pwd)"; shift
cd /verif || exit 2
git -C /repo diff --quiet || { echo "/repo not clean"; exit 2; }
git -C /repo apply "$d/patch.diff" || { echo "patch does not apply"; exit 2; }
trap 'git -C /repo checkout -- . ' EXIT INT TERM
for id in "$@"; do
  ./check "$id" --tier quick 2>&1 | grep -v conda | grep -v "^KNOWN-FINDING" | cut -c1-300 | tail -8
  echo "== $d $id exit=$?"
done
