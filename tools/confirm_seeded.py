#!/usr/bin/env python3
"""Confirms every seeded change in a scratch worktree of /repo HEAD (outside /repo and /verif, removed afterwards):
patch applies, the pinned 154 tests still pass with it, the demonstration fails with it and passes without it.
Writes the outcome into each meta.json under "confirmation"."""
import json, os, subprocess, sys, glob

VERIF = os.path.dirname(os.path.dirname(os.path.abspath(__file__)))
WT = "/tmp/sd_confirm_wt"
base = sys.argv[1] if len(sys.argv) > 1 else os.path.join(VERIF, "seeded")
dirs = sorted(d for d in glob.glob(os.path.join(base, "*")) if os.path.isfile(os.path.join(d, "patch.diff")))
subprocess.run(["git", "-C", "/repo", "worktree", "remove", "--force", WT], stdout=subprocess.DEVNULL, stderr=subprocess.DEVNULL)
subprocess.run(["git", "-C", "/repo", "worktree", "add", "--detach", WT, "HEAD"], check=True, stdout=subprocess.DEVNULL, stderr=subprocess.DEVNULL)
head = subprocess.run(["git", "-C", "/repo", "rev-parse", "--short", "HEAD"], stdout=subprocess.PIPE, text=True).stdout.strip()
env = dict(os.environ, PYTHONDONTWRITEBYTECODE="1", PYTHONHASHSEED="0")
try:
    for d in dirs:
        name = os.path.basename(d)
        res = {"repo_head": head}
        demo = os.path.join(d, "demo.py")
        subprocess.run(["git", "-C", WT, "checkout", "--", "."], check=True)
        clean = subprocess.run(["/venv/bin/python", demo], cwd=WT, env=env, stdout=subprocess.PIPE, stderr=subprocess.STDOUT, text=True, timeout=900)
        res["demo_without_change_exit"] = clean.returncode
        ap = subprocess.run(["git", "-C", WT, "apply", os.path.join(d, "patch.diff")], stdout=subprocess.PIPE, stderr=subprocess.STDOUT, text=True)
        res["patch_applies"] = ap.returncode == 0
        if ap.returncode == 0:
            t = subprocess.run([os.path.join(VERIF, "tools", "run_pinned_tests.py"), WT], stdout=subprocess.PIPE, stderr=subprocess.STDOUT, text=True, timeout=900)
            res["pinned_tests_pass_with_change"] = t.returncode == 0
            w = subprocess.run(["/venv/bin/python", demo], cwd=WT, env=env, stdout=subprocess.PIPE, stderr=subprocess.STDOUT, text=True, timeout=900)
            res["demo_with_change_exit"] = w.returncode
            res["demo_with_change_tail"] = w.stdout.strip().splitlines()[-1:] if w.stdout.strip() else []
        res["confirmed"] = bool(res.get("patch_applies") and res.get("pinned_tests_pass_with_change") and res.get("demo_with_change_exit") not in (0, None)
                                and res["demo_without_change_exit"] == 0)
        mp = os.path.join(d, "meta.json")
        meta = json.load(open(mp)) if os.path.exists(mp) else {}
        meta["confirmation"] = res
        json.dump(meta, open(mp, "w"), indent=1)
        print("%-10s applies=%s tests=%s demo_clean=%s demo_changed=%s -> %s" % (name, res.get("patch_applies"), res.get("pinned_tests_pass_with_change"),
              res["demo_without_change_exit"], res.get("demo_with_change_exit"), "CONFIRMED" if res["confirmed"] else "NOT CONFIRMED"))
finally:
    subprocess.run(["git", "-C", "/repo", "worktree", "remove", "--force", WT], stdout=subprocess.DEVNULL, stderr=subprocess.DEVNULL)
