#!/usr/bin/env python3
"""Runs every check once with a larger frontier budget into a scratch output directory and stores, for every OPEN finding
that reproduced, the smallest reproducing case as replays/<PID>/finding_<id>.json; records the path in known_findings.json
("example"). The examples document each finding by a concrete input and are part of the regression tier (attributed, so
they raise nothing; if a finding gets repaired its example simply becomes a clean replay)."""
import json, os, subprocess, sys, shutil
VERIF = os.path.dirname(os.path.dirname(os.path.abspath(__file__)))
out = "/tmp/kf_examples_out"
shutil.rmtree(out, ignore_errors=True)
pids = sys.argv[1:] or ["C%02d" % i for i in range(1, 21)]
kf = json.load(open(os.path.join(VERIF, "known_findings.json")))
by = {e["id"]: e for e in kf["findings"]}
for pid in pids:
    env = dict(os.environ, VERIF_OUT=out, VERIF_FRONTIER=os.environ.get("KF_FRONTIER", "150"), VERIF_SEED="1")
    subprocess.run([os.path.join(VERIF, "check"), pid, "--tier", "quick"], cwd=VERIF, env=env, stdout=subprocess.DEVNULL, stderr=subprocess.DEVNULL)
    evp = os.path.join(out, "evidence", pid + ".json")
    if not os.path.exists(evp):
        print(pid, "no evidence"); continue
    ex = json.load(open(evp))["coverage"].get("finding_examples", {})
    for fid, rec in ex.items():
        e = by.get(fid)
        if e is None or e.get("status") != "open" or pid not in e["properties"]:
            continue
        rel = os.path.join("replays", pid, "finding_%s.json" % fid)
        old = os.path.join(VERIF, rel)
        if os.path.exists(old) and len(json.dumps(json.load(open(old))["case"])) <= len(json.dumps(rec["case"])):
            e.setdefault("example", rel); continue
        os.makedirs(os.path.dirname(old), exist_ok=True)
        json.dump({"property": pid, "finding": fid, "case": rec["case"], "symptom": rec["disc"]}, open(old, "w"), indent=1, sort_keys=True)
        e["example"] = rel
    print(pid, "examples for", sorted(ex))
json.dump(kf, open(os.path.join(VERIF, "known_findings.json"), "w"), indent=1)
shutil.rmtree(out, ignore_errors=True)
missing = [e["id"] for e in kf["findings"] if e.get("status") == "open" and "example" not in e]
print("open findings without example:", missing)
