#!/usr/bin/env python3
"""tools/mutant_matrix.py [names...]: every seeded change x the quick checks of its own and neighbouring properties, each in
its own scratch worktree (VERIF_REPO) and output directory (VERIF_OUT) under /tmp, in parallel; /repo is never touched.
Writes seeded/<name>/detection.json and prints the matrix."""
import json, os, subprocess, sys, glob, shutil
from concurrent.futures import ThreadPoolExecutor

VERIF = os.path.dirname(os.path.dirname(os.path.abspath(__file__)))
NEIGH = {"C01": "C01 C17 C08 C05", "C02": "C02 C05 C06 C08 C18", "C03": "C03 C05 C08 C06 C18", "C04": "C04 C05 C06", "C05": "C05 C03 C04 C06 C07 C02",
         "C06": "C06 C13 C02 C11", "C07": "C07 C12", "C08": "C08 C01 C02 C17 C18", "C09": "C09 C20 C10 C11", "C10": "C10 C09", "C11": "C11 C15 C14 C16",
         "C12": "C12 C07 C13", "C13": "C13 C16", "C14": "C14 C15", "C15": "C15 C11 C14", "C16": "C16 C13 C03", "C17": "C17 C01 C08",
         "C18": "C18 C01", "C19": "C19", "C20": "C20 C09 C11 C19"}
base = os.path.join(VERIF, "seeded")
names = sys.argv[1:] or sorted(os.path.basename(d) for d in glob.glob(os.path.join(base, "C*_m*")))


def one(name):
    d = os.path.join(base, name)
    wt, out = "/tmp/mx_wt_" + name, "/tmp/mx_out_" + name
    subprocess.run(["git", "-C", "/repo", "worktree", "remove", "--force", wt], stdout=subprocess.DEVNULL, stderr=subprocess.DEVNULL)
    subprocess.run(["git", "-C", "/repo", "worktree", "add", "--detach", wt, "HEAD"], check=True, stdout=subprocess.DEVNULL, stderr=subprocess.DEVNULL)
    res = {}
    try:
        if subprocess.run(["git", "-C", wt, "apply", os.path.join(d, "patch.diff")]).returncode != 0:
            return name, {"error": "patch does not apply"}
        for pid in NEIGH[name.split("_")[0]].split():
            env = dict(os.environ, VERIF_REPO=wt, VERIF_OUT=out, VERIF_SEED="1")
            p = subprocess.run([os.path.join(VERIF, "check"), pid, "--tier", "quick"], cwd=VERIF, env=env, stdout=subprocess.PIPE, stderr=subprocess.STDOUT, text=True)
            viol = [l.split("bucket=")[1].split(" ")[0] for l in p.stdout.splitlines() if l.startswith("VIOLATION")]
            res[pid] = {"exit": p.returncode, "buckets": viol[:6]}
    finally:
        subprocess.run(["git", "-C", "/repo", "worktree", "remove", "--force", wt], stdout=subprocess.DEVNULL, stderr=subprocess.DEVNULL)
        shutil.rmtree(out, ignore_errors=True)
    json.dump(res, open(os.path.join(d, "detection.json"), "w"), indent=1)
    return name, res


with ThreadPoolExecutor(max_workers=6) as ex:
    for name, res in ex.map(one, names):
        caught = [p for p, r in res.items() if isinstance(r, dict) and r.get("exit") == 1]
        print("%-8s caught by: %-24s %s" % (name, " ".join(caught) or "-", {p: r.get("exit") for p, r in res.items() if isinstance(r, dict)} if "error" not in res else res))
