#!/usr/bin/env python3
"""Regenerates the generated parts of DESIGN.md (between the BEGIN/END markers) from known_findings.json and seeded/*."""
import glob, json, os, re
HERE = os.path.dirname(os.path.dirname(os.path.abspath(__file__)))
kf = json.load(open(os.path.join(HERE, "known_findings.json")))
out = []
out.append("| id | properties | status | shape (input) | symptom (signature) | what |")
out.append("|---|---|---|---|---|---|")
for e in kf["findings"]:
    shape = " OR ".join(" AND ".join(c) for c in e.get("shape", [])) or "any"
    if e.get("param_shape"):
        shape += " ; parameter: " + " OR ".join(" AND ".join(c) for c in e["param_shape"])
    sig = ", ".join("`%s`" % s for s in e.get("signature", []))
    out.append("| %s | %s | %s%s | %s | %s | %s |" % (e["id"], ",".join(e["properties"]), e["status"], (" " + e["commit"]) if e.get("commit") else "",
                                                   shape.replace("|", "\\|"), sig.replace("|", "\\|"), e["what"].replace("|", "\\|")))
findings_md = "\n".join(out)
fx = "\n".join("* `%s`" % l for l in kf.get("fixed", []))
rows = ["| change | breaks | needs, in order to manifest | caught by (quick tier) | not caught by |", "|---|---|---|---|---|"]
for d in sorted(glob.glob(os.path.join(HERE, "seeded", "C*_m*"))):
    name = os.path.basename(d)
    meta = json.load(open(os.path.join(d, "meta.json")))
    det = json.load(open(os.path.join(d, "detection.json"))) if os.path.exists(os.path.join(d, "detection.json")) else {}
    caught = [p for p, r in det.items() if isinstance(r, dict) and r.get("exit") == 1]
    missed = [p for p, r in det.items() if isinstance(r, dict) and r.get("exit") == 0]
    extra = meta.get("also_caught_by", [])
    rows.append("| %s | %s | %s | %s | %s |" % (name, meta.get("property", name[:3]), str(meta.get("needs_to_manifest", ""))[:260].replace("|", "\\|").replace("\n", " "),
                                             " ".join(sorted(set(caught + extra))) or "-", " ".join(m for m in missed if m not in extra) or "-"))
matrix_md = "\n".join(rows)
p = os.path.join(HERE, "DESIGN.md")
s = open(p).read()
for tag, md in (("FINDINGS", findings_md), ("FIXED", fx), ("MATRIX", matrix_md)):
    s = re.sub(r"(<!-- BEGIN %s -->).*?(<!-- END %s -->)" % (tag, tag), lambda m: m.group(1) + "\n" + md + "\n" + m.group(2), s, flags=re.S)
open(p, "w").write(s)
print("DESIGN.md tables regenerated: %d findings, %d fixed, %d seeded" % (len(kf["findings"]), len(kf.get("fixed", [])), len(rows) - 2))
