You are helping to evaluate a test harness by producing realistic *breaking changes* (mutations) for a Python project, SamuelMarks/doctrans: a source-to-source translator between docstrings (reST / numpydoc / Google), classes, functions and argparse functions through a dict-based intermediate representation (IR).

Your own scratch git worktree of the project is at {wt} (package directory {wt}/doctrans). Work ONLY there and under {out}. Do NOT read or write /repo or /verif at all.

The semantic property to break is:

  TITLE: {title}
  STATEMENT: {statement}
  QUANTIFIED OVER: {quant}

Task: produce TWO different, independent changes to the source under {wt}/doctrans (not the tests) such that, for EACH change on its own:
  1. the package still imports and the project's pinned test-suite still passes: `/tmp/mutkit/run_tests.py {wt}` must exit 0 (it runs pytest inside the worktree, ~7 s, and compares with the 154 baseline-passing tests; some tests fail at baseline already, that is expected);
  2. the property above is violated for some inputs - but only under something SPECIFIC: an unusual input shape, a particular option combination, a multi-step sequence of calls, a particular pre-state of files, two cooperating sites that each look fine alone, etc. Not something every ordinary use would expose at once, and not something the existing tests catch;
  3. it looks like a plausible slip or refactor a maintainer could make (an off-by-one, a swapped field, a dropped branch, a wrong condition, a missing copy, a changed default ...), 1-15 changed lines, no comments pointing at it.
For each change also write a small demonstration program that exits 0 on the UNCHANGED worktree and exits non-zero (assertion failure) with the change applied, exercising the property through the public API (doctrans.emit / doctrans.parse / doctrans.conformance / doctrans.sync_properties / doctrans.gen / `python -m doctrans` ...). The project as it stands already has a number of known defects, so choose demonstration inputs on which the unchanged code behaves correctly (check that first!).

Practicalities:
  * Interpreter: /venv/bin/python (CPython 3.12, all dependencies installed). Run things with cwd={wt} so that the worktree copy of `doctrans` is imported (verify with `doctrans.__file__`), and set PYTHONDONTWRITEBYTECODE=1.
  * At the top of demo programs put:  `try:\n    import meta\nexcept Exception:\n    pass`  (the third-party `meta` package fails on its first import under 3.12; harmless afterwards).
  * doctrans.emit.function(...) only supports docstring_format="rest". Useful mocks live in {wt}/doctrans/tests/mocks/ (e.g. doctrans.tests.mocks.ir.intermediate_repr).
  * Deliverables, for k in 1,2:  {out}/m<k>/patch.diff (output of `git -C {wt} diff` for that change alone), {out}/m<k>/demo.py (run as `cd {wt} && /venv/bin/python {out}/m<k>/demo.py`), {out}/m<k>/meta.json with keys: property ("{pid}"), summary (what was changed), needs_to_manifest (what specific input/sequence/state exposes it), files_touched.
  * Before finishing, verify for each k: with the patch applied -> run_tests.py exits 0 AND demo.py exits non-zero; with the patch reverted -> demo.py exits 0. Then leave the worktree clean (`git -C {wt} checkout -- .`).
  * Be economical: read only the source files you need. Final answer: 5-10 lines summarising the two changes and the verification results.
