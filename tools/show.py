"""Dev aid: python tools/show.py C01 found/C01/x.json  -> prints case, emitted text, parsed IR."""
import json, sys, os
sys.path.insert(0, os.path.dirname(os.path.dirname(os.path.abspath(__file__))))
from lib import env
env.bootstrap()
from lib import domain
from doctrans import emit, parse
rep = json.load(open(sys.argv[2]))
case = rep["case"]
print(json.dumps(case, indent=None))
if sys.argv[1] == "C01":
    text = emit.docstring(domain.to_ir(case["ir"]), docstring_format=case["style"], word_wrap=case["word_wrap"], emit_default_doc=case["emit_default_doc"])
    print(text)
    import pprint
    pprint.pprint(parse.docstring(text, emit_default_doc=case["parse_keep_sentence"]))
