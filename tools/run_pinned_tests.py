#!/venv/bin/python
"""Usage: run_tests.py <worktree>  -- runs the pinned suite in <worktree>, compares passed set with baseline."""
import json, subprocess, sys, os, tempfile, xml.etree.ElementTree as ET
wt = os.path.abspath(sys.argv[1])
base = set(json.load(open('/root/.vp/BASELINE.json'))['stable_pass'])
with tempfile.TemporaryDirectory() as d:
    x = os.path.join(d, 'j.xml')
    env = dict(os.environ, PYTHONDONTWRITEBYTECODE='1')
    p = subprocess.run(['/venv/bin/python','-m','pytest','-q','-p','no:cacheprovider','--timeout=900',
                        '--continue-on-collection-errors','--junitxml='+x], cwd=wt, env=env,
                       stdout=subprocess.PIPE, stderr=subprocess.STDOUT, text=True)
    passed = set()
    for tc in ET.parse(x).getroot().iter('testcase'):
        if not any(ch.tag in ('failure','error','skipped') for ch in tc):
            passed.add('%s::%s' % (tc.get('classname'), tc.get('name')))
missing = sorted(base - passed)
print('baseline stable-pass tests: %d; passed now: %d; baseline tests no longer passing: %d' % (len(base), len(passed & base), len(missing)))
for m in missing: print('  BROKEN', m)
# confirm that the worktree copy was the one imported
sys.exit(1 if missing else 0)
