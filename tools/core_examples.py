"""Dev aid: tools/core_examples.py C04 [n] -> for each unattributed bucket in the core budget, up to 3 small examples."""
import sys, os, json, importlib
sys.path.insert(0, os.path.dirname(os.path.dirname(os.path.abspath(__file__))))
from lib import env, runner
env.bootstrap()
mod = importlib.import_module("lib.props." + sys.argv[1].lower())
n = int(sys.argv[2]) if len(sys.argv) > 2 else 400
mode = sys.argv[3] if len(sys.argv) > 3 else "core"
knob = sys.argv[4] if len(sys.argv) > 4 else None
findings = runner.load_findings(mod.PID)
ex = {}
class C:
    def add(self, case, res, label):
        for d in res.discs:
            if runner.attribute(d, res.tags, findings) is None:
                ex.setdefault(d.aspect, []).append((len(runner.canon(case)), case, d))
runner.hyp_survey(mod, C(), mode, knob, n, 1)
for k, v in ex.items():
    v.sort(key=lambda t: t[0])
    print("=====", k, len(v))
    for _, case, d in v[:3]:
        print("   ", json.dumps(case.get("ir", case))[:600]); print("    opts", case.get("opts")); print("    ->", d.where, d.detail[:300])
import collections, re
for k, v in ex.items():
    c = collections.Counter(re.sub(r"'[a-z_ ]+'", "'s'", re.sub(r"\d+", "N", d.detail)) for _, _, d in v)
    print("#####", k)
    for det, n_ in c.most_common(25): print("   %4d %s" % (n_, det[:200]))
