"""The seven representation kinds: emit an IR as text, parse text back to an IR (always through *text*)."""
import ast

from hypothesis import strategies as st

from . import domain

DOC_KINDS = ("rest", "numpydoc", "google")
CODE_KINDS = ("class", "function", "method", "argparse")
KINDS = DOC_KINDS + CODE_KINDS

FUNC_NAME = "f_target"
CLASS_NAME = "TargetClass"
ARGPARSE_NAME = "set_cli_args"


def default_opts(kind):
    if kind in DOC_KINDS:
        return {"emit_default_doc": True, "word_wrap": True}
    if kind == "class":
        return {"emit_default_doc": False, "word_wrap": True}
    if kind in ("function", "method"):
        return {"function_type": "static" if kind == "function" else "self", "inline_types": True,
                "emit_as_kwonlyargs": True, "indent_level": 2, "emit_default_doc": False, "emit_separating_tab": False,
                "word_wrap": True}
    return {"emit_default_doc": False, "word_wrap": True, "wrap_description": False}


def wrap_opts(kind, flip, word_wrap):
    """Options of the wrapping checks: the defaults, with switches flipped according to the bits of `flip`."""
    opts = dict(default_opts(kind), word_wrap=word_wrap)
    if kind == "argparse":
        opts["wrap_description"] = word_wrap
    flip = int(flip)  # bit 0: default-text switch flipped; bit 1: function / method types in the docstring, not inline
    if flip & 1:
        opts["emit_default_doc"] = not opts["emit_default_doc"]
    if flip & 2 and "inline_types" in opts:
        opts["inline_types"] = False
    return opts


def opts_strategy(kind):
    b = st.booleans()
    if kind in DOC_KINDS:
        return st.fixed_dictionaries({"emit_default_doc": b, "word_wrap": b})
    if kind == "class":
        return st.fixed_dictionaries({"emit_default_doc": b, "word_wrap": b})
    if kind in ("function", "method"):
        ft = st.just("static") if kind == "function" else st.sampled_from(("self", "cls"))
        # type_from_ir: the kind is not passed to the emitter but taken from the description's own "type" entry
        return st.fixed_dictionaries({"function_type": ft, "inline_types": b, "emit_as_kwonlyargs": b,
                                      "indent_level": st.integers(0, 2), "emit_default_doc": b, "emit_separating_tab": b,
                                      "word_wrap": b, "type_from_ir": b})
    return st.fixed_dictionaries({"emit_default_doc": b, "word_wrap": b, "wrap_description": b})


def valid_opts(kind, o):
    try:
        d = default_opts(kind)
        if set(o) - {"type_from_ir"} != set(d):  # (`type_from_ir` is optional: older replays do not carry it)
            return False
        for k, v in o.items():
            if k == "function_type":
                if v not in ("static", "self", "cls"):
                    return False
            elif k == "indent_level":
                if v not in (0, 1, 2):
                    return False
            elif not isinstance(v, bool):
                return False
        return True
    except Exception:
        return False


def emit_node(kind, ir, opts):
    """ir: doctrans-form IR (fresh object). Returns an AST node (code kinds) or a str (docstring kinds)."""
    from doctrans import emit

    if kind in DOC_KINDS:
        return emit.docstring(ir, docstring_format=kind, word_wrap=opts["word_wrap"], emit_default_doc=opts["emit_default_doc"])
    if kind == "class":
        return emit.class_(ir, class_name=CLASS_NAME, emit_default_doc=opts["emit_default_doc"], word_wrap=opts["word_wrap"])
    if kind in ("function", "method"):
        ftype = opts["function_type"]
        if opts.get("type_from_ir"):
            ir["type"], ftype = ftype, None
        return emit.function(
            ir, function_name=FUNC_NAME, function_type=ftype, word_wrap=opts["word_wrap"],
            emit_default_doc=opts["emit_default_doc"], indent_level=opts["indent_level"],
            emit_separating_tab=opts["emit_separating_tab"], inline_types=opts["inline_types"],
            emit_as_kwonlyargs=opts["emit_as_kwonlyargs"],
        )
    return emit.argparse_function(ir, emit_default_doc=opts["emit_default_doc"], function_name=ARGPARSE_NAME,
                                  word_wrap=opts["word_wrap"], wrap_description=opts["wrap_description"])


def emit_text(kind, ir, opts):
    from doctrans.source_transformer import to_code

    node = emit_node(kind, ir, opts)
    return node if isinstance(node, str) else to_code(node)


def parse_text(kind, text, opts=None):
    from doctrans import parse

    if kind in DOC_KINDS:
        return parse.docstring(text)
    node = ast.parse(text).body[0]
    if kind == "class":
        return parse.class_(node)
    if kind in ("function", "method"):
        return parse.function(node)
    return parse.argparse_ast(node)


def ir_to_case(ir):
    """doctrans-form IR (as parsed) -> JSON case IR (for feeding the next hop and for shape tags)."""
    params = []
    for name, p in (ir.get("params") or {}).items():
        q = {"name": name}
        for k in ("typ", "doc"):
            if p.get(k) is not None and p.get(k) != "":
                q[k] = p[k]
        if "default" in p:
            d = p["default"]
            q["default"] = None if (isinstance(d, str) and d in ("None", domain.NONE_STR, "```None```")) or d is None else d
            if not isinstance(q["default"], (type(None), bool, int, float, str)):
                q["default"] = "```%r```" % (q["default"],)
        params.append(q)
    out = {"doc": ir.get("doc") or "", "params": params}
    r = (ir.get("returns") or {}).get("return_type") if ir.get("returns") else None
    if r:
        rr = {k: r[k] for k in ("typ", "doc", "default") if r.get(k) not in (None, "")}
        if rr:
            out["returns"] = rr
    return out
