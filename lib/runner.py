"""Survey runner shared by all checks.

collect -> bucket -> attribute to known findings -> minimise what is left -> replay files, evidence.

A property module (lib/props/cXX.py) provides:

  PID, LEVEL, RULE, ASSUMPTIONS
  FRONTIER_KNOBS          shape knobs excluded from the core budget by construction
  budgets(tier)           {"core": n, "frontier": n_per_knob, "shards": k, ...}
  strategy(mode, knob)    Hypothesis strategy of JSON-able cases; mode in {"core", "frontier"}
  run_case(case)          -> CaseResult (never raises for a failure of doctrans)
  valid(case)             -> bool, used while minimising
  extra_phases(ctx)       optional: additional exhaustive / child-process phases
"""
import hashlib
import json
import multiprocessing
import os
import re
import sys
import time
import traceback
from collections import Counter, OrderedDict

from . import env

KF_PATH = os.path.join(env.VERIF, "known_findings.json")


# ----------------------------------------------------------------------------- data
class Disc(object):
    """One discrepancy between what the oracle expects and what doctrans did."""

    __slots__ = ("aspect", "where", "detail", "ptags", "ctx", "owner")

    def __init__(self, aspect, where="", detail="", ptags=(), ctx=None, owner=None):
        # properties whose findings may explain this discrepancy (hop of a chain); None = any loaded finding
        self.owner = None if owner is None else tuple([owner] if isinstance(owner, str) else owner)
        self.aspect, self.where, self.detail = aspect, where, detail
        self.ptags = frozenset(ptags)
        # tags of the sub-step this discrepancy belongs to (a hop of a chain); None = the tags of the whole case
        self.ctx = None if ctx is None else frozenset(ctx)

    def to_json(self):
        return {
            "aspect": self.aspect,
            "where": self.where,
            "detail": self.detail[:400],
            "ptags": sorted(self.ptags),
        }

    def __repr__(self):
        return "Disc(%s @%s: %s)" % (self.aspect, self.where, self.detail[:120])


class CaseResult(object):
    __slots__ = ("discs", "tags", "nontrivial", "note", "evals", "subcases")

    def __init__(self, discs, tags, nontrivial, note="", evals=1, subcases=None):
        self.discs, self.tags = list(discs), frozenset(tags)
        self.nontrivial, self.note, self.evals = bool(nontrivial), note, evals
        # a case that bundles many independent inputs (a batch) lists them: [(hash, non-trivial?)]; they are what is
        # counted as distinct / non-trivial instead of the bundle
        self.subcases = subcases


def canon(case):
    return json.dumps(case, sort_keys=True, default=repr)


def case_hash(case):
    return hashlib.sha1(canon(case).encode()).hexdigest()[:16]


def exc_site(exc, prefer="doctrans"):
    """`module.function` of the innermost frame inside the code under test."""
    site = None
    tb = exc.__traceback__
    while tb is not None:
        fn = tb.tb_frame.f_code.co_filename
        if (os.sep + prefer + os.sep) in fn and (os.sep + "tests" + os.sep) not in fn:
            site = "%s.%s" % (
                os.path.splitext(os.path.basename(fn))[0],
                tb.tb_frame.f_code.co_name,
            )
        tb = tb.tb_next
    return site or "outside"


def raise_disc(exc, stage, ptags=()):
    return Disc(
        "raise:%s:%s:%s" % (stage, exc_site(exc), type(exc).__name__),
        stage,
        "%s: %s" % (type(exc).__name__, str(exc)[:300]),
        ptags,
    )


# ----------------------------------------------------------------------------- known findings
def load_findings(pid, also=()):
    with open(KF_PATH) as f:
        data = json.load(f)
    res = []
    pids = {pid} | set(also)
    for ent in data["findings"]:
        if pids & set(ent["properties"]):
            ent = dict(ent)
            ent["_sig"] = [re.compile(s) for s in ent.get("signature", [])]
            res.append(ent)
    return res


def _shape_ok(shape, tags):
    """shape: list of alternatives, each a list of tags ('!tag' = must be absent)."""
    if not shape:
        return True
    for conj in shape:
        if all((t[1:] not in tags) if t.startswith("!") else (t in tags) for t in conj):
            return True
    return False


def attribute(disc, tags, findings):
    if disc.ctx is not None:
        tags = disc.ctx
    for ent in findings:
        if ent.get("status") != "open":
            continue
        if disc.owner is not None and not (set(disc.owner) & set(ent["properties"])):
            continue
        if not _shape_ok(ent.get("shape"), tags):
            continue
        pshape = ent.get("param_shape")
        if pshape and not _shape_ok(pshape, disc.ptags):
            continue
        if any(rx.search(disc.aspect) for rx in ent["_sig"]):
            return ent["id"]
    return None


# ----------------------------------------------------------------------------- collector
class Collector(object):
    def __init__(self, mod, findings):
        self.mod, self.findings = mod, findings
        self.evaluations = 0
        self.cases = 0
        self.seen = set()
        self.nontrivial = set()
        self.tag_hist = Counter()
        self.mode_hist = Counter()
        self.finding_hits = Counter()  # finding id -> cases attributed
        self.finding_example = {}
        self.buckets = OrderedDict()  # bucket key -> {"count", "case", "discs", "tags", "mode"}
        self.samples = []
        self.rejected = 0
        self.excluded_by_construction = Counter()

    def add(self, case, res, mode):
        h = case_hash(case)
        self.cases += 1
        self.evaluations += res.evals
        self.mode_hist[mode] += 1
        if h in self.seen:
            return
        self.seen.add(h)
        if res.subcases:
            for sh, nt in res.subcases:
                self.seen.add(sh)
                if nt:
                    self.nontrivial.add(sh)
        for t in res.tags:
            self.tag_hist[t] += 1
        if res.nontrivial:
            if not res.subcases:
                self.nontrivial.add(h)
            if len(self.samples) < 6 and (len(self.samples) < 3 or res.discs):
                self.samples.append({"case": case, "mode": mode, "outcome": res.note or ("%d discrepancies" % len(res.discs))})
        hit = set()
        for d in res.discs:
            fid = attribute(d, res.tags, self.findings)
            if fid is not None:
                hit.add(fid)
                if fid not in self.finding_example:
                    focus = getattr(self.mod, "focus", None)
                    small = None
                    if focus is not None:
                        try:
                            small = focus(case, d.to_json())  # batch cases: the sub-case the discrepancy points at
                        except Exception:
                            small = None
                    self.finding_example[fid] = {"case": small or case, "disc": d.to_json()}
                continue
            key = bucket_key(d)
            b = self.buckets.get(key)
            if b is None:
                b = self.buckets[key] = {"count": 0, "case": case, "disc": d.to_json(), "tags": sorted(res.tags), "mode": mode, "size": len(canon(case)), "modes": {}}
            b["count"] += 1
            b["modes"][mode] = b["modes"].get(mode, 0) + 1
            if len(canon(case)) < b["size"]:
                b.update(case=case, disc=d.to_json(), tags=sorted(res.tags), mode=mode, size=len(canon(case)))
        for fid in hit:
            self.finding_hits[fid] += 1

    def dump(self):
        return {
            "evaluations": self.evaluations,
            "cases": self.cases,
            "seen": sorted(self.seen),
            "nontrivial": sorted(self.nontrivial),
            "tag_hist": dict(self.tag_hist),
            "mode_hist": dict(self.mode_hist),
            "finding_hits": dict(self.finding_hits),
            "finding_example": self.finding_example,
            "buckets": list(self.buckets.items()),
            "samples": self.samples,
            "rejected": self.rejected,
        }

    def merge(self, d):
        self.evaluations += d["evaluations"]
        self.cases += d["cases"]
        new = set(d["seen"]) - self.seen
        self.seen |= set(d["seen"])
        self.nontrivial |= set(d["nontrivial"])
        for k, v in d["tag_hist"].items():
            self.tag_hist[k] += v
        for k, v in d["mode_hist"].items():
            self.mode_hist[k] += v
        for k, v in d["finding_hits"].items():
            self.finding_hits[k] += v
        for k, v in d["finding_example"].items():
            self.finding_example.setdefault(k, v)
        for k, b in d["buckets"]:
            mine = self.buckets.get(k)
            if mine is None:
                self.buckets[k] = b
            else:
                mine["count"] += b["count"]
                modes = dict(mine["modes"])
                for m_, c_ in b["modes"].items():
                    modes[m_] = modes.get(m_, 0) + c_
                if b["size"] < mine["size"]:
                    cnt = mine["count"]
                    mine.update(b)
                    mine["count"] = cnt
                mine["modes"] = modes
        for s in d["samples"]:
            if len(self.samples) < 8:
                self.samples.append(s)
        self.rejected += d["rejected"]
        return new


def bucket_key(d):
    return d.aspect


# ----------------------------------------------------------------------------- hypothesis driver
def hyp_survey(mod, coll, mode, knob, n, seed_value):
    import hypothesis
    from hypothesis import HealthCheck, Phase, given, settings

    if n <= 0:
        return
    label = mode if knob is None else "%s:%s" % (mode, knob)

    @hypothesis.seed(seed_value)
    @settings(
        max_examples=n,
        database=None,
        deadline=None,
        derandomize=False,
        report_multiple_bugs=False,
        phases=[Phase.generate],
        suppress_health_check=[HealthCheck.too_slow, HealthCheck.data_too_large, HealthCheck.large_base_example],
    )
    @given(mod.strategy(mode, knob))
    def survey(case):
        res = mod.run_case(case)
        coll.add(case, res, label)

    survey()


def run_standard_phases(mod, coll, tier, seed_value, shard=0, nshards=1):
    b = mod.budgets(tier)
    if hasattr(mod, "configure"):
        mod.configure(tier, b)
    s = (seed_value * 1000003 + shard) % (2 ** 32)
    n_core = max(1, b["core"] // nshards)
    hyp_survey(mod, coll, "core", None, n_core, s)
    knobs = list(getattr(mod, "FRONTIER_KNOBS", ()))
    if os.environ.get("VERIF_ONLY_KNOBS"):  # development aid: survey a subset of the frontier
        knobs = [k for k in knobs if re.search(os.environ["VERIF_ONLY_KNOBS"], k)]
    n_f = int(os.environ.get("VERIF_FRONTIER", b.get("frontier", 0)))
    if n_f:
        for i, knob in enumerate(knobs):
            hyp_survey(mod, coll, "frontier", knob, max(1, n_f // nshards), (s + 7919 * (i + 1)) % (2 ** 32))
    extra = getattr(mod, "extra_phases", None)
    if extra is not None:
        extra(coll, tier, s, shard, nshards)


def _shard_main(args):
    modname, tier, seed_value, shard, nshards = args
    try:
        env.bootstrap()
        import importlib

        mod = importlib.import_module("lib.props." + modname)
        coll = Collector(mod, load_findings(mod.PID, getattr(mod, "ALSO_FINDINGS_OF", ())))
        run_standard_phases(mod, coll, tier, seed_value, shard, nshards)
        return ("ok", coll.dump())
    except BaseException:  # noqa
        return ("err", traceback.format_exc())


# ----------------------------------------------------------------------------- minimisation
def _reductions(x):
    """Structurally smaller variants of a JSON value (one step)."""
    if isinstance(x, list):
        for i in range(len(x)):
            yield x[:i] + x[i + 1 :]
        for i in range(len(x)):
            for r in _reductions(x[i]):
                yield x[:i] + [r] + x[i + 1 :]
    elif isinstance(x, dict):
        for k in list(x):
            y = dict(x)
            del y[k]
            yield y
        for k in list(x):
            for r in _reductions(x[k]):
                y = dict(x)
                y[k] = r
                yield y
    elif isinstance(x, str):
        if len(x) > 1:
            words = x.split(" ")
            if len(words) > 1:
                yield words[0]
                yield " ".join(words[:-1])
            lines = x.split("\n")
            if len(lines) > 1:
                yield lines[0]
    elif isinstance(x, bool):
        return
    elif isinstance(x, int):
        if x not in (0, 1):
            yield 1
    elif isinstance(x, float):
        if x != 1.5:
            yield 1.5


def minimise(mod, case, key, findings, max_evals=250):
    """Greedy structural ddmin keeping an unattributed discrepancy with the same bucket key."""

    def reproduces(c):
        try:
            if not mod.valid(c):
                return False
            res = mod.run_case(c)
        except env.HarnessError:
            return False
        except Exception:
            return False
        for d in res.discs:
            if bucket_key(d) == key and attribute(d, res.tags, findings) is None:
                return True
        return False

    evals = 0
    cur = case
    improved = True
    while improved and evals < max_evals:
        improved = False
        for cand in _reductions(cur):
            if evals >= max_evals:
                break
            evals += 1
            if len(canon(cand)) < len(canon(cur)) and reproduces(cand):
                cur = cand
                improved = True
                break
    return cur


# ----------------------------------------------------------------------------- replay files
def replay_dir(pid):
    return os.path.join(env.VERIF, "replays", pid)


def found_dir(pid):
    d = os.path.join(env.OUT, "found", pid)
    os.makedirs(d, exist_ok=True)
    return d


def run_regression_tier(mod, coll):
    d = replay_dir(mod.PID)
    n = 0
    if not os.path.isdir(d):
        return n
    for name in sorted(os.listdir(d)):
        if not name.endswith(".json"):
            continue
        with open(os.path.join(d, name)) as f:
            rep = json.load(f)
        if not mod.valid(rep["case"]):
            raise env.HarnessError("regression replay %s is not a valid case" % name)
        res = mod.run_case(rep["case"])
        coll.add(rep["case"], res, "regression")
        n += 1
    return n


# ----------------------------------------------------------------------------- main entry
def write_evidence(mod, tier, seed_value, coverage, violations, wall, extra_assumptions=()):
    ev = {
        "property_id": mod.PID,
        "tier": tier,
        "seed": seed_value,
        "level": mod.LEVEL,
        "coverage": coverage,
        "assumptions": list(mod.ASSUMPTIONS) + list(extra_assumptions),
        "wall_s": round(wall, 2),
        "violations": violations,
    }
    os.makedirs(os.path.join(env.OUT, "evidence"), exist_ok=True)
    path = os.path.join(env.OUT, "evidence", "%s.json" % mod.PID)
    tmp = path + ".tmp"
    with open(tmp, "w") as f:
        json.dump(ev, f, indent=1, sort_keys=True, default=repr)
        f.write("\n")
    os.replace(tmp, path)
    return path


def check_floors(mod, coll):
    floors = getattr(mod, "FLOORS", {})
    total = max(1, len(coll.seen))
    # FLOORS name the share a label is EXPECTED to have; the guard trips at 40% of that (a generator that has lost a
    # class of inputs), not on ordinary seed-to-seed variation
    for tag, frac in floors.items():
        got = coll.tag_hist.get(tag, 0) / float(total)
        if got < 0.4 * frac:
            raise env.HarnessError(
                "vacuity guard: tag %r in %.1f%% of distinct cases, expected about %.1f%% (guard at 40%% of that)" % (tag, 100 * got, 100 * frac)
            )


def main_check(modname, tier, replay=None, survey=False):
    t0 = time.time()
    env.bootstrap()
    import importlib

    mod = importlib.import_module("lib.props." + modname)
    findings = load_findings(mod.PID, getattr(mod, "ALSO_FINDINGS_OF", ()))
    seed_value = env.seed()

    if replay is not None:
        return do_replay(mod, findings, replay)

    coll = Collector(mod, findings)
    n_reg = run_regression_tier(mod, coll)
    b = mod.budgets(tier)
    nshards = int(os.environ.get("VERIF_SHARDS", b.get("shards", 1)))
    if nshards <= 1:
        run_standard_phases(mod, coll, tier, seed_value)
    else:
        ctx = multiprocessing.get_context("spawn")
        with ctx.Pool(min(nshards, 16)) as pool:
            results = pool.map(_shard_main, [(modname, tier, seed_value, i, nshards) for i in range(nshards)])
        for status, payload in results:
            if status != "ok":
                raise env.HarnessError("shard failed:\n" + payload)
            coll.merge(payload)

    check_floors(mod, coll)

    # ---- classify
    open_ids = [f["id"] for f in findings if f.get("status") == "open"]
    for fid in open_ids:
        if coll.finding_hits.get(fid):
            ent = next(f for f in findings if f["id"] == fid)
            via = "" if mod.PID in ent["properties"] else " (finding of %s met on a hop)" % "/".join(ent["properties"])
            print("KNOWN-FINDING: property=%s %s: %s%s [%d cases this run]" % (mod.PID, fid, ent["what"], via, coll.finding_hits[fid]))

    violations = []
    for key, b_ in coll.buckets.items():
        case = b_["case"]
        if not survey:
            focus = getattr(mod, "focus", None)
            if focus is not None:
                # property-specific shortcut: e.g. keep only the offending item of a batch
                try:
                    cand = focus(case, b_["disc"])
                    if cand is not None and mod.valid(cand):
                        res_c = mod.run_case(cand)
                        if any(bucket_key(d) == key and attribute(d, res_c.tags, findings) is None for d in res_c.discs):
                            case = cand
                except env.HarnessError:
                    pass
            case = minimise(mod, case, key, findings,
                            max_evals=getattr(mod, "MINIMISE_EVALS", {}).get(tier, 120 if tier == "quick" else 600))
        hh = hashlib.sha1((mod.PID + key).encode()).hexdigest()[:10]
        path = os.path.join(found_dir(mod.PID), "%s.json" % hh)
        try:
            res = mod.run_case(case)
            discs = [d.to_json() for d in res.discs]
            tags = sorted(res.tags)
        except Exception:
            discs, tags = [b_["disc"]], b_["tags"]
        with open(path, "w") as f:
            json.dump(
                {"property": mod.PID, "bucket": key, "case": case, "tags": tags, "discrepancies": discs,
                 "count_in_run": b_["count"], "seed": seed_value, "tier": tier, "mode": b_["mode"]},
                f, indent=1, sort_keys=True, default=repr,
            )
            f.write("\n")
        violations.append((key, os.path.relpath(path, env.OUT), b_["count"], dict(b_["disc"], modes=b_["modes"]), tags))

    cov = {
        "evaluations": coll.evaluations,
        "cases": coll.cases,
        "distinct_cases": len(coll.seen),
        "distinct_nontrivial": len(coll.nontrivial),
        "rule": mod.RULE,
        "samples": coll.samples[:8],
        "regression_replays": n_reg,
        "budget_split": dict(coll.mode_hist),
        "label_histogram": dict(sorted(coll.tag_hist.items())),
        "open_findings_reproduced": {k: v for k, v in coll.finding_hits.items()},
        "finding_examples": {k: v for k, v in coll.finding_example.items() if len(canon(v["case"])) < 6000},
        "excluded_from_core_by_construction": list(getattr(mod, "FRONTIER_KNOBS", ())),
        "unattributed_buckets": [{"bucket": k, "count": c, "replay": p} for k, p, c, _, _ in violations],
        "shards": nshards,
    }
    extra_cov = getattr(mod, "extra_coverage", None)
    if extra_cov is not None:
        cov.update(extra_cov(coll))
    write_evidence(mod, tier, seed_value, cov, len(violations), time.time() - t0)

    if survey:
        print("---- survey %s tier=%s seed=%d: %d cases, %d distinct, %d non-trivial, %.1fs" % (
            mod.PID, tier, seed_value, coll.cases, len(coll.seen), len(coll.nontrivial), time.time() - t0))
        for k, v in sorted(coll.mode_hist.items()):
            print("   mode %-40s %d" % (k, v))
        for key, path, cnt, disc, tags in sorted(violations, key=lambda v: -v[2]):
            print("BUCKET %-60s n=%-5d %s\n       modes=%s\n       tags=%s\n       %s: %s" % (key, cnt, path, " ".join("%s=%d" % (m_.replace("frontier:", "f:"), c_) for m_, c_ in sorted(disc["modes"].items(), key=lambda kv: -kv[1])[:8]), ",".join(t for t in tags), disc["where"], disc["detail"][:300]))

    for key, path, cnt, disc, tags in violations:
        print("VIOLATION property=%s replay=%s bucket=%s cases=%d" % (mod.PID, path, key, cnt))
    print("%s %s: %d cases (%d distinct, %d non-trivial), %d open findings reproduced, %d violations, %.1fs" % (
        mod.PID, tier, coll.cases, len(coll.seen), len(coll.nontrivial),
        sum(1 for f in open_ids if coll.finding_hits.get(f)), len(violations), time.time() - t0))
    return 1 if violations else 0


def do_replay(mod, findings, path):
    with open(path) as f:
        rep = json.load(f)
    case = rep["case"]
    res = mod.run_case(case)
    bad = []
    for d in res.discs:
        fid = attribute(d, res.tags, findings)
        print("%s %s @%s: %s" % ("known(%s)" % fid if fid else "UNATTRIBUTED", d.aspect, d.where, d.detail[:300]))
        if fid is None:
            bad.append(d)
    print("tags:", ",".join(sorted(res.tags)))
    if bad:
        print("VIOLATION property=%s replay=%s" % (mod.PID, path))
        return 1
    print("replay clean: property holds on this case")
    return 0
