"""Helpers shared by the IR-driven properties (C01-C06, C08, C13, C18)."""
import os

from hypothesis import strategies as st

from . import domain

ALL_KNOBS = tuple(domain.MUTATORS)


def ir_case_strategy(mod, mode, knob, config_strategy, **kw):
    """case = {"ir": ..., **config}; core = base + random subset of mod.CORE_ALLOWED; frontier = core + `knob`."""
    allowed = tuple(mod.CORE_ALLOWED)
    if os.environ.get("VERIF_BASE_ONLY"):
        allowed = ()
    forced = knob if mode == "frontier" else None
    return st.builds(
        lambda ir, cfg: dict(cfg, ir=ir),
        domain.ir_strategy(allowed=allowed, forced=forced, **kw),
        config_strategy,
    )


def frontier_knobs(mod_frontier):
    if os.environ.get("VERIF_ALL_FRONTIER"):
        return ALL_KNOBS
    return tuple(mod_frontier)
