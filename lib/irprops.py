"""Helpers shared by the IR-driven properties (C01-C06, C08, C13, C18)."""
import os

from hypothesis import strategies as st

from . import domain

ALL_KNOBS = tuple(domain.MUTATORS)


def ir_case_strategy(mod, mode, knob, config_strategy, **kw):
    """case = {"ir": ..., **config}; core = base + random subset of mod.CORE_ALLOWED; frontier = core + `knob`."""
    allowed = tuple(mod.CORE_ALLOWED)
    if os.environ.get("VERIF_BASE_ONLY"):
        allowed = ()
    forced = knob if mode == "frontier" else None
    return st.builds(
        lambda ir, cfg: dict(cfg, ir=ir),
        domain.ir_strategy(allowed=allowed, forced=forced, **kw),
        config_strategy,
    )


def frontier_knobs(mod_frontier):
    if os.environ.get("VERIF_ALL_FRONTIER"):
        return ALL_KNOBS
    return tuple(mod_frontier)


# ----------------------------------------------------------------------------- single-kind round trip
def roundtrip(case, kind, policy, nontrivial, extra=None, name_for_tags="kind"):
    """emit -> text -> parse -> compare; `extra(cir, got, text, discs, per_by_name)` adds property-specific checks."""
    from . import kinds
    from .oracle import compare_ir
    from .runner import CaseResult, raise_disc

    cir, opts = case["ir"], case["opts"]
    tags, per = domain.tags_of(cir)
    tags |= {"kind=" + kind} | {"%s=%s" % (k, v) for k, v in opts.items()}
    per_by_name = {p["name"]: t for p, t in zip(cir["params"], per)}
    try:
        text = kinds.emit_text(kind, domain.to_ir(cir), opts)
    except Exception as e:
        return CaseResult([raise_disc(e, "emit")], tags, nontrivial, "emit raised %s" % type(e).__name__)
    try:
        compile(text, "<emitted>", "exec") if kind in kinds.CODE_KINDS else None
    except SyntaxError as e:
        from .runner import Disc

        return CaseResult([Disc("emit:syntax-error", "text", "%s in %r" % (e, text[:300]))], tags, nontrivial, "emitted text does not compile")
    try:
        got = kinds.parse_text(kind, text, opts)
    except Exception as e:
        return CaseResult([raise_disc(e, "parse")], tags, nontrivial, "parse raised %s" % type(e).__name__)
    discs = compare_ir(cir, got, policy, per_by_name)
    if extra is not None:
        extra(cir, got, text, discs, per_by_name, opts)
    return CaseResult(discs, tags, nontrivial, "round trip %s" % ("ok" if not discs else "; ".join(d.aspect for d in discs[:4])))


def valid_rt_case(case, kind):
    from . import kinds

    return (isinstance(case, dict) and set(case) == {"ir", "opts"} and domain.valid_ir(case["ir"])
            and kinds.valid_opts(kind, case["opts"]))
