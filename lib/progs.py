"""Generated user-written programs (DESIGN.md section 2.3): modules as JSON trees rendered to source text, and the
independent location model (section 3) written directly over `ast`."""
import ast
import keyword

from hypothesis import strategies as st

NAME_POOL = ("a", "b", "c", "x", "y", "f", "g", "h", "A", "B", "C", "attr", "val", "run", "Inner", "cfg")
TYPES = ("int", "str", "float", "bool", "Optional[int]", "List[str]", "np.ndarray", "Literal['p', 'q']")
COLLIDING_TYPES = ("Literal['a', 'b']", "Literal['x', 'f']", "Literal['attr', 'val']")
VALUES = ("1", "2", "'s'", "None", "0.5", "True", "(1, 2)", "[]")
IMPORTS = ("import os", "import sys", "from typing import Optional, List", "import numpy as np", "from os import path")


# ----------------------------------------------------------------------------- generation
@st.composite
def arg_list(draw, used, n_max=3):
    out = []
    for _ in range(draw(st.integers(0, n_max))):
        cand = [n for n in NAME_POOL if n not in used and n[0].islower()]
        if not cand:
            break
        n = draw(st.sampled_from(cand))
        used.add(n)
        out.append({"name": n, "typ": draw(st.one_of(st.none(), st.sampled_from(TYPES))), "default": None})
    return out


@st.composite
def func(draw, name, method=False):
    used = set()
    first = draw(st.sampled_from(("self", "self", "cls", None))) if method else None
    args = draw(arg_list(used))
    # defaults only on a suffix of the positional arguments (valid Python)
    k = draw(st.integers(0, len(args)))
    for a in args[len(args) - k:]:
        a["default"] = draw(st.sampled_from(VALUES))
    kwonly = draw(arg_list(used, 2))
    for a in kwonly:
        if draw(st.booleans()):
            a["default"] = draw(st.sampled_from(VALUES))
    kwarg = None
    if draw(st.integers(0, 3)) == 0:
        kwarg = draw(st.sampled_from([n for n in ("kwargs", "opts") if n not in used]))
    return {"k": "def", "name": name, "first": first, "args": args, "kwonly": kwonly, "kwarg": kwarg,
            "ret": draw(st.sampled_from(("pass", "return None", "return 1")))}


@st.composite
def body(draw, depth, in_class=False, min_size=0, max_size=5):
    stmts, used = [], set()
    for _ in range(draw(st.integers(min_size, max_size))):
        cand = [n for n in NAME_POOL if n not in used]
        if not cand:
            break
        kinds = ["assign", "ann", "def", "def"]
        if depth < 3:
            kinds += ["class", "class"]
        if not in_class:
            kinds += ["import"]
        k = draw(st.sampled_from(kinds))
        if k == "import":
            if draw(st.integers(0, 2)) == 0:
                # the imported (not the bound) name is spelt like something this module may define itself
                nm = draw(st.sampled_from(NAME_POOL))
                stmts.append({"k": "import", "src": draw(st.sampled_from(("from legacy import %s as _old_%s", "import %s as _mod_%s"))) % (nm, nm)})
            else:
                stmts.append({"k": "import", "src": draw(st.sampled_from(IMPORTS))})
            continue
        if k == "class":
            cand = [n for n in cand if n[0].isupper()] or cand
        elif k == "def":
            cand = [n for n in cand if n[0].islower()] or cand
        n = draw(st.sampled_from(cand))
        used.add(n)
        if k == "assign":
            stmts.append({"k": "assign", "name": n, "value": draw(st.sampled_from(VALUES))})
        elif k == "ann":
            stmts.append({"k": "ann", "name": n, "typ": draw(st.sampled_from(TYPES)),
                          "value": draw(st.one_of(st.none(), st.sampled_from(VALUES)))})
        elif k == "def":
            stmts.append(draw(func(n, method=in_class)))
        else:
            stmts.append({"k": "class", "name": n, "body": draw(body(depth + 1, in_class=True, max_size=4))})
    return stmts


def _rebind(draw, stmts):
    """Insert `NAME = wrap(NAME)` somewhere after a class/function definition of the same scope (a second binding)."""
    idx = [i for i, s in enumerate(stmts) if s["k"] in ("class", "def")]
    if not idx:
        return
    i = draw(st.sampled_from(idx))
    j = draw(st.integers(i + 1, len(stmts)))
    stmts.insert(j, {"k": "assign", "name": stmts[i]["name"], "value": "wrap(%s)" % stmts[i]["name"]})


@st.composite
def module(draw, min_size=1, max_size=6, rebind=True):
    b = draw(body(1, min_size=min_size, max_size=max_size))
    if rebind and draw(st.integers(0, 3)) == 0:
        scopes = [b] + [s["body"] for s in b if s["k"] == "class"]
        _rebind(draw, draw(st.sampled_from(scopes)))
    return {"doc": draw(st.sampled_from((None, None, "Module docstring."))), "body": b, "trailing_newline": draw(st.booleans())}


# ----------------------------------------------------------------------------- rendering
def _arg(a):
    s = a["name"]
    if a.get("typ"):
        s += ": " + a["typ"]
    if a.get("default") is not None:
        s += (" = " if a.get("typ") else "=") + a["default"]
    return s


def render_stmt(s, ind=0):
    pad = "    " * ind
    k = s["k"]
    if k == "import":
        return [pad + s["src"]]
    if k == "assign":
        return [pad + "%s = %s" % (s["name"], s["value"])]
    if k == "ann":
        return [pad + "%s: %s%s" % (s["name"], s["typ"], "" if s["value"] is None else " = " + s["value"])]
    if k == "raw":
        return [pad + l for l in s["src"].split("\n")]
    if k == "def":
        parts = ([s["first"]] if s.get("first") else []) + [_arg(a) for a in s["args"]]
        if s["kwonly"]:
            parts += ["*"] + [_arg(a) for a in s["kwonly"]]
        if s.get("kwarg"):
            parts.append("**" + s["kwarg"])
        out = [pad + "def %s(%s):" % (s["name"], ", ".join(parts))]
        if s.get("doc"):
            out.append(pad + '    """%s"""' % s["doc"])
        for l in (s.get("body_lines") or [s.get("ret", "pass")]):
            out.append(pad + "    " + l)
        return out
    if k == "class":
        out = [pad + "class %s(object):" % s["name"]]
        if s.get("doc"):
            out.append(pad + '    """%s"""' % s["doc"])
        inner = []
        for t in s["body"]:
            inner += render_stmt(t, ind + 1)
        return out + (inner or [pad + "    pass"])
    raise ValueError(k)


def render(mod):
    lines = []
    if mod.get("doc"):
        lines.append('"""%s"""' % mod["doc"])
    for s in mod["body"]:
        lines += render_stmt(s)
    if not lines:
        lines = ["pass"]
    src = "\n".join(lines)
    if mod.get("trailing_ws"):  # a whitespace-only last line that is not terminated
        return src + "\n" + mod["trailing_ws"]
    return src + ("\n" if mod.get("trailing_newline", True) else "")


def valid_module(mod):
    try:
        if not isinstance(mod, dict) or not isinstance(mod.get("body"), list):
            return False
        src = render(mod)
        tree = ast.parse(src)
        return _unique_scopes(tree)
    except Exception:
        return False


def _scope_names(body_nodes, fn=None):
    names = []
    for n in body_nodes:
        if isinstance(n, (ast.ClassDef, ast.FunctionDef)):
            names.append(n.name)
        elif isinstance(n, ast.Assign) and len(n.targets) == 1 and isinstance(n.targets[0], ast.Name):
            names.append(n.targets[0].id)
        elif isinstance(n, ast.AnnAssign) and isinstance(n.target, ast.Name):
            names.append(n.target.id)
    return names


def _unique_scopes(tree):
    for node in ast.walk(tree):
        # names may repeat within a module/class scope (re-binding such as `X = wrap(X)`): the model resolves to the
        # FIRST definition and "replace once" means that one only; argument names must be unique (Python requires it)
        if isinstance(node, ast.FunctionDef):
            ns = [a.arg for a in node.args.args + node.args.kwonlyargs] + ([node.args.kwarg.arg] if node.args.kwarg else [])
            if len(ns) != len(set(ns)) or any(keyword.iskeyword(x) for x in ns):
                return False
    return True


# ----------------------------------------------------------------------------- location model (reference resolver)
def model_children(node):
    """name -> (child node, kind) for the segments resolvable directly under `node`."""
    out = {}
    if isinstance(node, ast.FunctionDef):
        for a in node.args.args:
            out.setdefault(a.arg, (a, "arg"))
        for a in node.args.kwonlyargs:
            out.setdefault(a.arg, (a, "kwonlyarg"))
        if node.args.kwarg is not None:
            out.setdefault(node.args.kwarg.arg, (node.args.kwarg, "kwarg"))
        return out
    if isinstance(node, (ast.Module, ast.ClassDef)):
        for n in node.body:
            if isinstance(n, ast.ClassDef):
                out.setdefault(n.name, (n, "class"))
            elif isinstance(n, ast.FunctionDef):
                out.setdefault(n.name, (n, "def"))
            elif isinstance(n, ast.Assign) and len(n.targets) == 1 and isinstance(n.targets[0], ast.Name):
                out.setdefault(n.targets[0].id, (n, "assign"))
            elif isinstance(n, ast.AnnAssign) and isinstance(n.target, ast.Name):
                out.setdefault(n.target.id, (n, "ann"))
    return out


def model_resolve(tree, path):
    """-> (node, kind) or (None, None). Exact qualified path only."""
    node, kind = tree, "module"
    for seg in path:
        ch = model_children(node)
        if seg not in ch:
            return None, None
        node, kind = ch[seg]
    if node is tree:
        return None, None
    return node, kind


def model_locations(tree):
    """All resolvable paths with their kinds, in source order."""
    out = []

    def rec(node, prefix):
        for name, (child, kind) in model_children(node).items():
            out.append((prefix + [name], kind))
            if kind in ("class", "def"):
                rec(child, prefix + [name])

    rec(tree, [])
    return out


def node_id(node):
    if node is None:
        return None
    return (type(node).__name__, getattr(node, "lineno", None), getattr(node, "col_offset", None),
            getattr(node, "name", getattr(node, "arg", None)))
