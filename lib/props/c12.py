"""C12 Output is a deterministic function of the input."""
import json
import os
import shutil
import subprocess
import sys
import tempfile
from concurrent.futures import ThreadPoolExecutor

from hypothesis import strategies as st

from .. import domain, env
from ..runner import CaseResult, Disc, case_hash
from . import c07

PID = "C12"
LEVEL = "exploration"
RULE = (
    "cases = a batch of generated items - user-written definitions (C07 generator: all / prefix / some / none of the "
    "parameters documented, in or out of order) and interface descriptions (all shapes) - serialised to a file; a fixed "
    "driver (lib/c12_driver.py) converts every item through parse -> each emitter / each kind's emit-parse-emit and prints "
    "the texts. (configurations) the driver's output under PYTHONHASHSEED in {1..N} and 'random' (several processes) must be "
    "byte-identical to the run with seed 0; (histories) inside one process the same conversions are re-run in "
    "Hypothesis-drawn permutations with repetitions and each output must equal its output in the canonical order. "
    "evaluations = conversions x processes + permuted re-runs; distinct = canonical-JSON hash of the batch; non-trivial item "
    "= definition with >=2 parameters the docstring does not mention (a set difference of >=2 names exists)"
)
ASSUMPTIONS = ["a failing conversion must fail the same way in every process (the exception type is part of the output)",
               "'random' hash seeds are sampled (a handful of processes), 0..N are swept"]
CORE_ALLOWED = ()
FRONTIER_KNOBS = ()
FLOORS = {}
_CFG = {"items": 30, "seeds": 7, "randoms": 2, "perms": 6}


def budgets(tier):
    if tier == "quick":
        # (batches of 30: much larger ones overrun Hypothesis' entropy buffer and generation becomes the whole run time)
        return {"core": 6, "frontier": 0, "shards": 1, "items": 30, "seeds": 7, "randoms": 2, "perms": 6}
    return {"core": 32, "frontier": 0, "shards": 4, "items": 30, "seeds": 31, "randoms": 4, "perms": 12}


def configure(tier, b):
    _CFG.update({k: b[k] for k in ("items", "seeds", "randoms", "perms")})


def mod():
    return sys.modules[__name__]


ALL_KNOBS = tuple(k for k in domain.MUTATORS if not k.startswith("long_"))
DEF_KNOBS = (None, None, "partial_doc", "partial_doc", "out_of_order", "kwarg_undocumented", "untyped_with_default", "class_partial_kwarg")


@st.composite
def _item(draw):
    if draw(st.booleans()):
        case = draw(c07._case(draw(st.sampled_from(DEF_KNOBS))))
        allp = case["args"] + case["kwonly"]
        undocumented = len([p for p in allp if p["name"] not in case["documented"]])
        return {"type": "definition", "kind": case["kind"], "source": c07.render(case), "undocumented": undocumented}
    # shapes whose conversion goes through a set / frozenset of strings are forced into a third of the descriptions
    forced = draw(st.sampled_from((None, None, "mixed_literal", "union_with_str", "int_literal", "undocumented_param", "two_announcements", "str_with_bracket")))
    return {"type": "ir", "ir": draw(domain.ir_strategy(allowed=ALL_KNOBS, forced=forced, max_params=5))}


@st.composite
def _batch(draw):
    n = _CFG["items"]
    items = draw(st.lists(_item(), min_size=n, max_size=n))
    n_conv = sum(6 if it["type"] == "definition" else 7 for it in items)
    # one drawn integer per permutation; the list of conversion indices derived from it is stored in the case itself
    import random

    perms = []
    for _ in range(_CFG["perms"]):
        r = random.Random(draw(st.integers(0, 2 ** 32 - 1)))
        perms.append([r.randrange(n_conv) for _ in range(r.randint(20, 60))])
    return {"items": items, "perms": perms, "seeds": _CFG["seeds"], "randoms": _CFG["randoms"]}


def strategy(mode, knob=None):
    return _batch()


def valid(case):
    return (isinstance(case, dict) and set(case) == {"items", "perms", "seeds", "randoms"} and isinstance(case["items"], list)
            and len(case["items"]) >= 1 and all(it.get("type") in ("definition", "ir") for it in case["items"])
            and all(isinstance(p, list) for p in case["perms"]))


def _child(batch_path, seed):
    e = dict(os.environ, PYTHONHASHSEED=str(seed), PYTHONDONTWRITEBYTECODE="1", PYTHONPATH=env.VERIF)
    p = subprocess.run([sys.executable, "-m", "lib.c12_driver", batch_path], cwd=env.VERIF, env=e, stdout=subprocess.PIPE,
                       stderr=subprocess.PIPE, timeout=1800)
    if p.returncode != 0:
        raise env.HarnessError("driver failed under PYTHONHASHSEED=%s: %s" % (seed, p.stderr.decode()[-800:]))
    return json.loads(p.stdout.decode())


def run_case(case):
    d = tempfile.mkdtemp(prefix="c12_")
    discs = []
    tags = {"items=%d" % len(case["items"])}
    try:
        bp = os.path.join(d, "batch.json")
        with open(bp, "w") as f:
            json.dump({"items": case["items"], "perms": case["perms"]}, f)
        bp0 = os.path.join(d, "batch0.json")
        with open(bp0, "w") as f:
            json.dump({"items": case["items"], "perms": []}, f)
        bpr = os.path.join(d, "batch_rev.json")
        with open(bpr, "w") as f:
            json.dump({"items": case["items"], "perms": [], "order": "reverse"}, f)
        seeds = [0] + list(range(1, case["seeds"] + 1)) + ["random"] * case["randoms"]
        with ThreadPoolExecutor(max_workers=min(16, len(seeds) + 1)) as ex:
            fut_rev = ex.submit(_child, bpr, 0)
            results = list(ex.map(lambda s: _child(bp if s == 0 else bp0, s), seeds))
            rev = fut_rev.result()
        base = results[0]
        for k, h in rev["outputs"].items():
            if base["outputs"].get(k) != h:
                i, conv = k.split(":", 1)
                it = case["items"][int(i)]
                discs.append(Disc("history:%s:%s" % (it["type"], conv), "item %s (reverse order)" % i,
                                  "output differs when the batch is converted in reverse order in a fresh process; item %s" % json.dumps(it)[:300]))
        bad = {}
        for s, r in zip(seeds[1:], results[1:]):
            for k, h in r["outputs"].items():
                if base["outputs"].get(k) != h:
                    bad.setdefault(k, []).append(s)
        for k, ss in sorted(bad.items()):
            i, conv = k.split(":", 1)
            it = case["items"][int(i)]
            discs.append(Disc("hashseed:%s:%s" % (it["type"], conv), "item %s" % i, "output differs from seed 0 under seeds %r; item %s" % (
                ss[:6], json.dumps(it)[:300])))
        for mm in base["perm_mismatch"]:
            i, conv = mm["key"].split(":", 1)
            it = case["items"][int(i)]
            discs.append(Disc("history:%s:%s" % (it["type"], conv), "item %s perm %d" % (i, mm["perm"]), "output depends on what ran before; item %s" % json.dumps(it)[:300]))
        # one discrepancy per aspect is enough for bucketing
        seen, uniq = set(), []
        for dd in discs:
            if dd.aspect not in seen:
                seen.add(dd.aspect)
                uniq.append(dd)
        n_nt = sum(1 for it in case["items"] if it["type"] == "definition" and it.get("undocumented", 0) >= 2)
        tags.add("nontrivial_items=%d" % n_nt)
        evals = base["n_convs"] * len(seeds) + sum(len(p) for p in case["perms"])
        return CaseResult(uniq, tags, n_nt >= 1, "%d items, %d conversions x %d processes, %d permuted re-runs, %d items with >=2 undocumented parameters" % (
            len(case["items"]), base["n_convs"], len(seeds), sum(len(p) for p in case["perms"]), n_nt), evals=evals,
            subcases=[(case_hash(it), it["type"] == "definition" and it.get("undocumented", 0) >= 2) for it in case["items"]])
    finally:
        shutil.rmtree(d, ignore_errors=True)


MINIMISE_EVALS = {"quick": 3, "thorough": 25}


def focus(case, disc):
    """Keep only the offending item (and few processes): the replay file then names one input."""
    import re

    m = re.match(r"item (\d+)", disc.get("where", ""))
    if not m:
        return None
    return {"items": [case["items"][int(m.group(1))]], "perms": [[0, 1, 2, 3, 4, 5, 0, 1, 2, 3, 4, 5]] if "perm" in disc.get("where", "") else [],
            "seeds": min(case["seeds"], 5), "randoms": 1}


def extra_coverage(coll):
    return {"explanation_of_counts": "evaluations counts conversions x processes + permuted re-runs; one generated batch is one 'case'"}
