"""C17 Default values survive the trip through prose with value and type intact."""
import re
import sys

from hypothesis import strategies as st

from .. import domain
from ..oracle import NONE_ALIASES, strip_code, ws
from ..runner import CaseResult, Disc, raise_disc

PID = "C17"
LEVEL = "exploration"
RULE = (
    "cases = (prose, value, declared type or none, announcement phrase in {Defaults to, defaults to, Default value is, "
    "Default:}, removal on/off, entry point in {extract_default, interpolate_defaults, set_default_doc->extract_default}) "
    "plus negative controls (prose with the word 'default' but no announcement; arbitrary unicode lines without an "
    "announcement). The sentence is rendered by the harness' own codec (and by set_default_doc for the third entry point), "
    "so extract_default is checked against an inverse it did not produce. Oracle: value equal and same Python type (code "
    "modulo back-ticks, strings modulo one quoting layer on the raw entry point), removed-sentence prose equals the "
    "surrounding prose (modulo the one full stop the renderer added), negative controls come back unchanged with no "
    "default. distinct = canonical-JSON hash; non-trivial = value is not a positive int and prose contains one of . , ( ) `"
)
ASSUMPTIONS = [
    "strings are rendered quoted when the declared type mentions str (as doctrans' own renderer does) and bare otherwise",
    "None, 'None' and the code-quoted (None) are one value (pure_utils.none_types)",
]

PHRASES = ("Defaults to ", "defaults to ", "Default value is ", "Default: ")
CORE_ALLOWED = ()
FRONTIER_KNOBS = ("empty_str", "str_with_quote", "trailing_text")
FLOORS = {"negative_control": 0.1, "remove=True": 0.25}


def budgets(tier):
    if tier == "quick":
        return {"core": 4000, "frontier": 150, "shards": 1}
    return {"core": 16 * 40000, "frontier": 16 * 1500, "shards": 16}


def mod():
    return sys.modules[__name__]


def _mentions_str(typ):
    return typ is not None and "str" in domain.type_names(typ)


VALUES_BY_TYPE = {
    "int": st.integers(-1000, 100000),
    "float": st.sampled_from((0.5, 2.0, 1e-07, -0.25, 0.001, 3.14, 100.0, 0.0, 1e10, -1.5e-05)),
    "bool": st.booleans(),
    "str": st.sampled_from(domain.STR_WORDS + ("two words", "a b c", "a.b", "~/tensorflow_datasets", "model.h5",
                                               "it's", "it's v2.x only", "don't. stop", "`tick` it")),
}


@st.composite
def positive(draw, knob=None):
    kind = draw(st.sampled_from(("int", "int", "float", "bool", "str", "none", "code")))
    typ = None
    if knob in ("str_with_dot", "empty_str", "str_with_quote"):
        kind = "str"
    if knob in ("code_dot", "bracket_code"):
        kind = "code"
    if kind in VALUES_BY_TYPE:
        value = draw(VALUES_BY_TYPE[kind])
        typ = draw(st.sampled_from((None, kind, "Optional[%s]" % kind, "Union[%s, np.ndarray]" % kind)))
        if kind == "str" and typ is None:
            value = draw(st.sampled_from(domain.STR_WORDS))  # a bare multi-word / dotted string is not representable unquoted
    elif kind == "none":
        value = None
        typ = draw(st.sampled_from((None, "Optional[int]", "Optional[str]", "Optional[np.ndarray]")))
    else:
        value = domain.code(draw(st.sampled_from(("stdout", "foo(5)", "1 + 2", "foo(1.5)", "(1, 2)", "[1, 2]", "[]", "{'a': 1}", "(np, tf)") + domain.CODE_DOT)))
        typ = draw(st.sampled_from((None, "np.ndarray", "Callable")))
    if knob == "str_with_dot":
        value, typ = draw(st.sampled_from(("a.b", "~/tensorflow_datasets", "model.h5"))), draw(st.sampled_from(("str", "Optional[str]")))
    elif knob == "empty_str":
        value, typ = "", "str"
    elif knob == "str_with_quote":
        value, typ = draw(st.sampled_from(('say "hi"', 'a "b.c" d', 'it\'s "so"'))), "str"
    elif knob == "code_dot":
        value = domain.code(draw(st.sampled_from(domain.CODE_DOT)))
    elif knob == "bracket_code":
        value = domain.code(draw(st.sampled_from(("(1, 2)", "[1, 2]", "[]", "{'a': 1}", "(np, tf)"))))
    prose = draw(domain.prose(punct=draw(st.booleans())))
    if knob is None and draw(st.integers(0, 4)) == 0:
        # prose that mentions the word without announcing a value; the real sentence must still be written and read
        prose = "%s %s" % (prose, draw(st.sampled_from(("by default", "the default one", "default behaviour", "non-default values"))))
    trailing = None
    if knob == "trailing_text":
        trailing = " ".join(draw(st.lists(st.sampled_from(domain.WORDS), min_size=2, max_size=4))).capitalize()
    if knob is None and draw(st.integers(0, 9)) == 0:
        prose = ""  # the sentence starts at column 0
    return {
        "kind": "positive",
        "prose": prose,
        "value": value,
        "typ": typ,
        "phrase": draw(st.sampled_from(PHRASES)),
        "remove": draw(st.booleans()),
        "via": draw(st.sampled_from(("extract", "interpolate", "set_default_doc"))),
        "trailing": trailing,
    }


NEG_WORDS = ("by default", "the default one", "default behaviour", "Defaults are sane", "non-default values", "defaulting")


@st.composite
def negative(draw, knob=None):
    if draw(st.booleans()):
        line = "%s %s %s" % (draw(domain.prose(punct=draw(st.booleans()))), draw(st.sampled_from(NEG_WORDS)), draw(domain.prose(1, 3)))
    else:
        line = draw(st.text(min_size=0, max_size=40))
        # remove announcements by construction (case-insensitively), never by rejection
        line = re.sub(r"(?i)defaults to|default value is|default:", "dflt", line)
    return {"kind": "negative", "line": line, "remove": draw(st.booleans()), "via": draw(st.sampled_from(("extract", "set_default_doc")))}


def strategy(mode, knob=None):
    if mode == "frontier":
        return positive(knob)
    return st.one_of(positive(), positive(), positive(), negative())


def valid(case):
    if not isinstance(case, dict):
        return False
    if case.get("kind") == "negative":
        return set(case) == {"kind", "line", "remove", "via"} and isinstance(case["line"], str) and not re.search(
            r"(?i)defaults to|default value is|default:", case["line"])
    if case.get("kind") != "positive":
        return False
    if set(case) != {"kind", "prose", "value", "typ", "phrase", "remove", "via", "trailing"}:
        return False
    if case["phrase"] not in PHRASES or case["via"] not in ("extract", "interpolate", "set_default_doc"):
        return False
    if not isinstance(case["prose"], str) or re.search(r"(?i)defaults to|default value is|default:", case["prose"]):
        return False
    if case["typ"] is not None and not isinstance(case["typ"], str):
        return False
    return isinstance(case["value"], (type(None), bool, int, float, str))


def render_value(value, typ):
    """Harness codec: how a value is written after the announcement."""
    if value is None:
        return "None"
    if isinstance(value, str) and not domain.is_code(value):
        return '"%s"' % value if _mentions_str(typ) else value
    return "%s" % (value,)


def case_tags(case):
    t = {"kind=" + case["kind"], "remove=%s" % case["remove"], "via=" + case["via"]}
    if case["kind"] == "negative":
        t.add("negative_control")
        return t
    v = case["value"]
    t.add("phrase=" + case["phrase"].strip())
    t.add("typ=%s" % ("none" if case["typ"] is None else "given"))
    if v is None:
        t.add("v=none")
    elif isinstance(v, bool):
        t.add("v=bool")
    elif isinstance(v, int):
        t.add("v=int")
        t.add("v=int<0" if v < 0 else "v=int0" if v == 0 else "v=int>0")
    elif isinstance(v, float):
        t.add("v=float")
    elif domain.is_code(v):
        t.add("v=code")
        if re.search(r"\.(?!\d)", v):
            t.add("code_dot")
        if v[3] in "([{":
            t.add("bracket_code")
        if any(c in v for c in "([{"):
            t.add("has_bracket")
    else:
        t.add("v=str")
        if "." in v:
            t.add("str_with_dot")
        if v == "":
            t.add("empty_str")
        if '"' in v:
            t.add("str_with_quote")  # the quote character the renderer itself uses (finding KF-P03)
        if "'" in v:
            t.add("str_with_squote")
        if " " in v:
            t.add("str_with_space")
    if case["trailing"]:
        t.add("trailing_text")
    if not case["prose"]:
        t.add("col0")
    if "default" in case["prose"].lower():
        t.add("default_word_in_prose")
    return t


def value_equal(exp, got, raw_entry):
    """-> None or aspect suffix."""
    if exp is None:
        return None if (isinstance(got, (str, type(None))) and got in NONE_ALIASES) else "value:None->%r" % type(got).__name__
    if isinstance(exp, str):
        if not isinstance(got, str):
            return "type:%s->%s" % ("code" if domain.is_code(exp) else "str", type(got).__name__)
        if domain.is_code(exp):
            return None if strip_code(exp) == strip_code(got) else "value:code"
        cand = {got}
        if len(got) > 1 and got[0] == got[-1] and got[0] in "'\"":
            cand.add(got[1:-1])  # one quoting layer is representation (interpolate_defaults removes it)
        return None if exp in cand else "value:str"
    if type(exp) is not type(got):
        return "type:%s->%s" % (type(exp).__name__, type(got).__name__)
    return None if exp == got else "value:%s" % type(exp).__name__


def run_case(case):
    from doctrans.defaults_utils import extract_default, set_default_doc
    from doctrans.emitter_utils import interpolate_defaults

    tags = case_tags(case)
    discs = []
    if case["kind"] == "negative":
        line = case["line"]
        try:
            if case["via"] == "extract":
                doc, default = extract_default(line, emit_default_doc=not case["remove"])
            else:
                doc = set_default_doc(("p", {"doc": line}), emit_default_doc=not case["remove"])[1]["doc"]
                default = None
        except Exception as e:
            return CaseResult([raise_disc(e, "negative")], tags, True, "raised")
        if doc != line:
            discs.append(Disc("negative:prose-altered", "line", "in %r out %r" % (line, doc)))
        if default is not None:
            discs.append(Disc("negative:default-invented", "line", "in %r default %r" % (line, default)))
        return CaseResult(discs, tags, True, "negative control %s" % ("unchanged" if not discs else "ALTERED"))

    prose, value, typ = case["prose"], case["value"], case["typ"]
    added_stop = bool(prose) and prose[-1] not in ".,"
    head = (prose + ("." if added_stop else "") + " ") if prose else ""
    rendered = render_value(value, typ)
    nontrivial = not (isinstance(value, int) and not isinstance(value, bool) and value > 0) and any(c in prose for c in ".,()`")
    try:
        if case["via"] == "set_default_doc":
            # doctrans' own renderer (only knows 'Defaults to'); then the same extraction
            from doctrans.ast_utils import NoneStr

            p = {"doc": prose or "x", "default": NoneStr if value is None else value}
            if typ is not None:
                p["typ"] = typ
            line = set_default_doc(("p", p), emit_default_doc=True)[1]["doc"]
            if not prose:
                head = "x. "
                added_stop = True
                prose = "x"
        else:
            line = head + case["phrase"] + rendered
        if case["trailing"]:
            line = line + ". " + case["trailing"]
        if case["via"] == "interpolate":
            p = {"doc": line}
            if typ is not None:
                p["typ"] = typ
            _, out = interpolate_defaults(("p", p), emit_default_doc=not case["remove"])
            doc, default = out["doc"], out.get("default")
        else:
            doc, default = extract_default(line, typ=typ, emit_default_doc=not case["remove"])
    except Exception as e:
        return CaseResult([raise_disc(e, case["via"])], tags, nontrivial, "raised %s" % type(e).__name__)
    if default is None and value is not None:
        discs.append(Disc("default:lost", "value", "line %r -> default None" % line))
    else:
        why = value_equal(value, default, case["via"] != "interpolate")
        if why:
            discs.append(Disc("default:" + why, "value", "line %r expected %r got %r" % (line, value, default)))
    if case["remove"]:
        expected = [prose + ("." if added_stop else "")]
        if added_stop:
            expected.append(prose)
        if case["trailing"]:
            expected = [e + sep + case["trailing"] for e in expected for sep in (" ", ". ")] + [
                (e.rstrip(".") + ". " + case["trailing"]) for e in expected]
        if ws(doc) not in [ws(e) for e in expected]:
            discs.append(Disc("prose:changed-on-removal", "doc", "line %r -> %r, expected one of %r" % (line, doc, expected)))
    elif doc != line:
        discs.append(Disc("prose:changed-without-removal", "doc", "line %r -> %r" % (line, doc)))
    return CaseResult(discs, tags, nontrivial, "%r -> %r" % (line, default))
