"""C16 Implementation bodies are carried through conversions verbatim."""
import ast
import copy
import sys

from hypothesis import strategies as st

from .. import domain, kinds
from ..runner import CaseResult, Disc, raise_disc
from . import c05

PID = "C16"
LEVEL = "exploration"
RULE = (
    "cases = generated statement lists (assignments, augmented assignments, calls with keyword arguments named like "
    "parameters, for/while loops, conditionals with early return, nested def and lambda, comprehensions, with, try; final "
    "return or none; optionally inner scopes that re-bind a parameter name) attached to generated interfaces, through four "
    "routes: function->function, method->method (parse.function + emit.function with the same name and type), argparse "
    "function with extra statements -> parse.argparse_ast -> emit.argparse_function, and function -> emit.class_(emit_call="
    "True). Oracle: same kind/name: the emitted body minus docstring equals the original body minus docstring statement by "
    "statement (identical trees, same order, final return once); argparse: the extra statements are carried once and in "
    "order; __call__: equals the output of an independent scope-aware rewriter that turns exactly the references to "
    "interface parameters into self.<name> (never keyword names, attribute names, or names re-bound by an inner scope). "
    "distinct = canonical-JSON hash; non-trivial = >=4 statements incl. a compound statement and a call with a keyword "
    "named like a parameter"
)
ASSUMPTIONS = ["trees are compared through unparse/parse", "top-level loads and stores of a parameter name both count as references to it"]
CORE_ALLOWED = c05._CORE_ARGPARSE
FRONTIER_KNOBS = ("shadowing", "final_return_undocumented", "final_return_constant")
FLOORS = {"route=function": 0.1, "route=method": 0.08, "route=argparse": 0.08, "route=call": 0.1, "compound": 0.3}


def budgets(tier):
    if tier == "quick":
        return {"core": 800, "frontier": 100, "shards": 4}
    return {"core": 16 * 3000, "frontier": 16 * 400, "shards": 16}


def mod():
    return sys.modules[__name__]


LOCALS = ("tmp", "acc", "total", "idx", "item", "res")


@st.composite
def _expr(draw, names):
    pool = list(names) + ["1", "2", "'s'"]
    a, b = draw(st.sampled_from(pool)), draw(st.sampled_from(pool))
    return draw(st.sampled_from(("%s" % a, "%s + %s" % (a, b), "foo(%s)" % a, "[%s, %s]" % (a, b), "%s.attr" % (a if a.isidentifier() else "obj"))))


@st.composite
def _stmt(draw, params, depth=0, shadow=False):
    names = list(params) + list(LOCALS[:2])
    kinds_ = ["assign", "aug", "call", "callkw", "for", "if", "with", "try", "lambda", "comp", "def"]
    if depth >= 1:
        kinds_ = ["assign", "aug", "call", "callkw"]
    k = draw(st.sampled_from(kinds_))
    e = draw(_expr(names))
    p = draw(st.sampled_from(list(params))) if params else "tmp"
    loc = draw(st.sampled_from(LOCALS))
    if k == "assign":
        return ["%s = %s" % (loc, e)]
    if k == "aug":
        return ["%s = 0" % loc, "%s += %s" % (loc, draw(st.sampled_from(names)))] if depth == 0 else ["%s = %s" % (loc, e)]
    if k == "call":
        return ["print(%s)" % e]
    if k == "callkw":
        return ["foo(%s, %s=%s, sep=%s)" % (e, p, draw(st.sampled_from(names)), p)]
    inner = sum((draw(_stmt(params, depth + 1)) for _ in range(draw(st.integers(1, 2)))), [])
    ind = ["    " + l for l in inner]
    if k == "for":
        return ["for idx in range(3):"] + ind
    if k == "if":
        return ["if %s:" % e] + ind + (["    return %s" % draw(st.sampled_from(names))] if draw(st.booleans()) else [])
    if k == "with":
        return ["with open(%s) as fh:" % e] + ind
    if k == "try":
        return ["try:"] + ind + ["except ValueError:", "    pass"]
    if k == "lambda":
        arg = p if shadow else "zz"
        return ["%s = lambda %s: %s + %s" % (loc, arg, arg, draw(st.sampled_from(names)))]
    if k == "comp":
        tgt = p if shadow else "zz"
        return ["%s = [%s for %s in range(3)]" % (loc, tgt, tgt)]
    arg = p if shadow else "zz"
    return ["def inner(%s):" % arg, "    return %s + %s" % (arg, draw(st.sampled_from(names)))]


@st.composite
def _case(draw, knob):
    route = draw(st.sampled_from(("function", "method", "argparse", "call")))
    if knob == "shadowing":
        route = "call"
    if knob in ("final_return_undocumented", "final_return_constant"):
        route = draw(st.sampled_from(("function", "method")))
    ir = draw(domain.ir_strategy(allowed=CORE_ALLOWED, min_params=0, max_params=4, argparse_only=True,
                                 base_exclude=()))
    ir.pop("returns", None)
    params = [p["name"] for p in ir["params"] if not p["name"].endswith("kwargs")]
    if not params and route == "argparse":
        params = ["zz0"]
    body = []
    n = draw(st.integers(1, 5))
    for i in range(n):
        body += draw(_stmt(params, 0, shadow=(knob == "shadowing" and i == 0) or (knob == "shadowing" and draw(st.booleans()))))
    if route == "argparse" and draw(st.integers(0, 2)) == 0:
        # statements that look like the interface but are not: options registered on a group / another parser
        grp = draw(st.sampled_from(("group", "sub", "parent_parser")))
        more = ["%s = argument_parser.add_argument_group('advanced')" % grp,
                "%s.add_argument('--%s', type=int, help='not an option of the interface')" % (grp, draw(st.sampled_from(("gamma", "verbose") + tuple(params))))]
        if draw(st.booleans()):
            more.append("argument_parser.set_defaults(mode='fast')")
        starts = [i for i, l in enumerate(body) if not l.startswith((" ", "except", "else", "finally"))] + [len(body)]
        at = draw(st.sampled_from(starts))  # between two top-level statements, never inside a compound one
        body = body[:at] + more + body[at:]
    final = None
    if route in ("function", "method", "call") and draw(st.booleans()):
        final = draw(st.sampled_from(["return %s" % x for x in params + ["tmp", "foo(1)", "0", "False", "0.0"]] + ["return"]))
    if knob == "final_return_constant":
        final = "return %s" % draw(st.sampled_from(("5", "'s'", "True", "2.5")))
    if knob == "final_return_undocumented":
        final = final or "return tmp"
    docstyle = "full"
    if knob is None and route in ("function", "method", "call") and draw(st.integers(0, 5)) == 0:
        docstyle = draw(st.sampled_from(("blank", "none")))
    return {"route": route, "ir": ir, "body": body, "final": final, "ret_doc": knob != "final_return_undocumented", "docstyle": docstyle,
            "first": draw(st.sampled_from(("self", "cls"))) if route == "method" else None,
            "positions": draw(st.lists(st.integers(0, 6), min_size=len(body), max_size=len(body)))}


def strategy(mode, knob=None):
    return _case(knob if mode == "frontier" else None)


def valid(case):
    try:
        if not (isinstance(case, dict) and set(case) - {"docstyle"} == {"route", "ir", "body", "final", "ret_doc", "first", "positions"}):
            return False
        if case["route"] not in ("function", "method", "argparse", "call") or not domain.valid_ir(case["ir"]):
            return False
        ast.parse("def f():\n" + "\n".join("    " + l for l in (case["body"] + ([case["final"]] if case["final"] else [])) or ["    pass"]))
        return True
    except Exception:
        return False


# ----------------------------------------------------------------------------- reference rewriter for __call__
class RefRewriter(ast.NodeTransformer):
    """Replaces exactly the Names that refer to an interface parameter; inner scopes that re-bind a name hide it."""

    def __init__(self, params):
        self.stack = [set(params)]

    @property
    def live(self):
        return self.stack[-1]

    def visit_Name(self, node):
        if node.id in self.live:
            return ast.copy_location(ast.Attribute(ast.Name("self", ast.Load()), node.id, node.ctx), node)
        return node

    def _scoped(self, node, bound, fields):
        self.stack.append(self.live - set(bound))
        for f in fields:
            v = getattr(node, f)
            if isinstance(v, list):
                setattr(node, f, [self.visit(x) for x in v])
            elif v is not None:
                setattr(node, f, self.visit(v))
        self.stack.pop()
        return node

    def _args(self, a):
        return [x.arg for x in a.posonlyargs + a.args + a.kwonlyargs] + ([a.vararg.arg] if a.vararg else []) + ([a.kwarg.arg] if a.kwarg else [])

    def visit_FunctionDef(self, node):
        node.args.defaults = [self.visit(d) for d in node.args.defaults]
        return self._scoped(node, self._args(node.args), ["body"])

    def visit_Lambda(self, node):
        return self._scoped(node, self._args(node.args), ["body"])

    def _comp(self, node, fields):
        bound = []
        for g in node.generators:
            bound += [n.id for n in ast.walk(g.target) if isinstance(n, ast.Name)]
        # the first iterable is evaluated in the enclosing scope
        node.generators[0].iter = self.visit(node.generators[0].iter)
        self.stack.append(self.live - set(bound))
        for g in node.generators:
            g.target = self.visit(g.target)
            if g is not node.generators[0]:
                g.iter = self.visit(g.iter)
            g.ifs = [self.visit(i) for i in g.ifs]
        for f in fields:
            setattr(node, f, self.visit(getattr(node, f)))
        self.stack.pop()
        return node

    def visit_ListComp(self, node):
        return self._comp(node, ["elt"])

    visit_SetComp = visit_GeneratorExp = visit_ListComp

    def visit_DictComp(self, node):
        return self._comp(node, ["key", "value"])


def _norm(stmts):
    return [ast.dump(ast.parse(ast.unparse(ast.fix_missing_locations(s)))) for s in stmts]


def _strip_doc(body):
    if body and isinstance(body[0], ast.Expr) and isinstance(getattr(body[0].value, "value", None), str):
        return body[1:]
    return body


def function_source(case, name=kinds.FUNC_NAME):
    cir = case["ir"]
    args = ([case["first"]] if case["first"] else []) + [
        p["name"] + ("=%r" % (p["default"],) if "default" in p and not domain.is_code(p["default"]) else "")
        for p in sorted((p for p in cir["params"] if not p["name"].endswith("kwargs")), key=lambda p: "default" in p and not domain.is_code(p["default"]))]
    doc = [cir["doc"], ""] + sum(([":param %s: %s" % (p["name"], p.get("doc", "the " + p["name"])), ""] for p in cir["params"] if not p["name"].endswith("kwargs")), [])
    if case["final"] and case["ret_doc"]:
        doc += [":returns: the result", ""]
    lines = ["def %s(%s):" % (name, ", ".join(args)), '    """'] + ["    " + l if l else "" for l in doc] + ['    """']
    if case.get("docstyle") == "blank":  # a docstring that says nothing (what emit.function writes for an undocumented one)
        lines = [lines[0], '    """ """']
    elif case.get("docstyle") == "none":
        lines = [lines[0]]
    lines += ["    " + l for l in case["body"]]
    if case["final"]:
        lines.append("    " + case["final"])
    return "\n".join(lines) + "\n"


def run_case(case):
    from doctrans import emit, parse
    from doctrans.source_transformer import to_code

    route = case["route"]
    tags = {"route=" + route, "docstring=" + case.get("docstyle", "full")}
    body_src = "\n".join(case["body"])
    if any(l.startswith(("for ", "if ", "with ", "try:", "def ")) for l in case["body"]):
        tags.add("compound")
    params = [p["name"] for p in case["ir"]["params"] if not p["name"].endswith("kwargs")]
    kw_like = any(("%s=" % p) in body_src for p in params)
    if kw_like:
        tags.add("kw_like_param")
    if case["final"]:
        tags.add("final_return")
        if not case["ret_doc"]:
            tags.add("final_return_undocumented")
        if case["final"].split(" ", 1)[-1] in ("5", "'s'", "True", "2.5"):
            tags.add("final_return_constant")
        if case["final"].split(" ", 1)[-1] in ("0", "False", "0.0", "return"):
            tags.add("final_return_falsy")
    # shadowing: an inner scope binds a parameter name
    try:
        tree_b = ast.parse("def f():\n" + "\n".join("    " + l for l in case["body"] or ["pass"]))
        for n in ast.walk(tree_b.body[0]):
            bound = []
            if isinstance(n, (ast.FunctionDef, ast.Lambda)) and n is not tree_b.body[0]:
                bound = [a.arg for a in n.args.args]
            elif isinstance(n, (ast.ListComp, ast.SetComp, ast.GeneratorExp, ast.DictComp)):
                bound = [x.id for g in n.generators for x in ast.walk(g.target) if isinstance(x, ast.Name)]
            if set(bound) & set(params):
                tags.add("shadowing")
    except SyntaxError:
        pass
    nstm = len(case["body"]) + (1 if case["final"] else 0)
    nontrivial = nstm >= 4 and "compound" in tags and kw_like
    discs = []
    try:
        if route in ("function", "method", "call"):
            src = function_source(case)
            fdef = ast.parse(src).body[0]
            orig = _strip_doc(fdef.body)
            ir = parse.function(fdef)
            if route == "call":
                node = emit.class_(ir, class_name=kinds.CLASS_NAME, emit_call=True)
                text = to_code(node)
                cls = ast.parse(text).body[0]
                call = [n for n in cls.body if isinstance(n, ast.FunctionDef) and n.name == "__call__"]
                if len(call) != 1:
                    discs.append(Disc("call:missing", "__call__", "class has %d __call__ methods: %r" % (len(call), text[-300:])))
                else:
                    want = [RefRewriter(params).visit(copy.deepcopy(s)) for s in orig]
                    got = _strip_doc(call[0].body)
                    if _norm(want) != _norm(got):
                        discs.append(Disc("call:body-differs", "__call__", "expected %r got %r" % (
                            [ast.unparse(ast.fix_missing_locations(s))[:60] for s in want], [ast.unparse(s)[:60] for s in got])))
                    else:
                        # second hop, same kind: the class just written is parsed with its __call__ merged in and emitted
                        # again - the method body has to come through statement for statement
                        ir2 = parse.class_(cls, merge_inner_function="__call__")
                        cls2 = ast.parse(to_code(emit.class_(ir2, class_name=kinds.CLASS_NAME, emit_call=True))).body[0]
                        call2 = [n for n in cls2.body if isinstance(n, ast.FunctionDef) and n.name == "__call__"]
                        if len(call2) != 1:
                            discs.append(Disc("call2:missing", "__call__", "re-emitted class has %d __call__ methods" % len(call2)))
                        else:
                            _cmp_bodies(got, _strip_doc(call2[0].body), discs, "call2")
                        # ... and as a method of its own (same kind, same name): emit.function from the merged description
                        ir3 = parse.class_(cls, merge_inner_function="__call__")
                        fn3 = ast.parse(to_code(emit.function(ir3, function_name="__call__", function_type="self"))).body[0]
                        # (a different kind of definition: the final return is rebuilt from the return entry - `return` becomes
                        # `return None`, `self.x` becomes `x` - so only the statements before it are compared)
                        cut = lambda b: b[:-1] if b and isinstance(b[-1], ast.Return) else b
                        _cmp_bodies(cut(got), cut(_strip_doc(fn3.body)), discs, "call3")
            else:
                ft = case["first"] or "static"
                if case.get("docstyle", "full") == "full" and len(case["body"]) % 2:
                    # both are optional arguments: left out, the emitter takes them from the parsed description
                    tags.add("name_and_type_from_ir")
                    node = emit.function(ir, function_name=None, function_type=None)
                else:
                    node = emit.function(ir, function_name=kinds.FUNC_NAME, function_type=ft)
                text = to_code(node)
                got = _strip_doc(ast.parse(text).body[0].body)
                _cmp_bodies(orig, got, discs, "function")
        else:
            base = to_code(emit.argparse_function(domain.to_ir(case["ir"]), function_name=kinds.ARGPARSE_NAME))
            fdef = ast.parse(base).body[0]
            stmts = list(fdef.body)
            extras = [ast.parse(l if not l.startswith(" ") else l).body for l in _blocks(case["body"])]
            extras = [s for b in extras for s in b]
            # insert extras after the description assignment, at drawn positions, keeping their relative order; the final
            # `return argument_parser` stays last
            head, tail = stmts[:2], stmts[2:-1]
            ret = stmts[-1]
            slots = sorted(min(p, len(tail)) for p in case["positions"][: len(extras)]) + [len(tail)] * max(0, len(extras) - len(case["positions"]))
            merged, ei = [], 0
            for i, s in enumerate(tail + [None]):
                while ei < len(extras) and slots[ei] <= i:
                    merged.append(extras[ei])
                    ei += 1
                if s is not None:
                    merged.append(s)
            fdef.body = head + merged + [ret]
            src = ast.unparse(ast.fix_missing_locations(fdef))
            ir = parse.argparse_ast(ast.parse(src).body[0])
            text = to_code(emit.argparse_function(ir, function_name=kinds.ARGPARSE_NAME))
            got_body = _strip_doc(ast.parse(text).body[0].body)
            got_extras = [s for s in got_body if not _is_option(s) and not _is_description(s)]
            want_extras = extras + [ret]
            _cmp_bodies(want_extras, got_extras, discs, "argparse")
            n_want, n_got = sum(map(_is_option, stmts)), sum(map(_is_option, got_body))
            if n_want != n_got:
                discs.append(Disc("argparse:options:%s" % ("extra" if n_got > n_want else "missing"), "options",
                                  "%d option registrations on argument_parser before, %d after" % (n_want, n_got)))
    except Exception as e:
        discs.append(raise_disc(e, route))
    return CaseResult(discs, tags, nontrivial, "%s: %s" % (route, "ok" if not discs else discs[0].aspect))


def _is_option(s):
    """`argument_parser.add_argument(...)` as an expression statement - the interface part of an argparse function (own
    predicate: the one doctrans uses decides what it carries, so it cannot also judge it)."""
    return (isinstance(s, ast.Expr) and isinstance(s.value, ast.Call) and isinstance(s.value.func, ast.Attribute)
            and s.value.func.attr == "add_argument" and isinstance(s.value.func.value, ast.Name) and s.value.func.value.id == "argument_parser")


def _is_description(s):
    return (isinstance(s, ast.Assign) and len(s.targets) == 1 and isinstance(s.targets[0], ast.Attribute)
            and s.targets[0].attr == "description" and isinstance(s.targets[0].value, ast.Name) and s.targets[0].value.id == "argument_parser")


def _blocks(lines):
    """Group source lines into top-level statements (a line that starts with a space continues the previous one)."""
    out = []
    for l in lines:
        if l.startswith(" ") or l.startswith(("except", "else", "finally")):
            out[-1] += "\n" + l
        else:
            out.append(l)
    return out


def _cmp_bodies(want, got, discs, what):
    w, g = _norm(want), _norm(got)
    if w == g:
        return
    wr = [x for x in want if isinstance(x, ast.Return)]
    gr = [x for x in got if isinstance(x, ast.Return)]
    if len(g) < len(w):
        asp = "dropped"
    elif len(g) > len(w):
        asp = "duplicated-or-added"
    elif sorted(w) == sorted(g):
        asp = "reordered"
    else:
        asp = "changed"
    if len(gr) != len(wr):
        asp += ":return-count"
    discs.append(Disc("%s:body:%s" % (what, asp), what, "expected %r got %r" % ([ast.unparse(s)[:50] for s in want], [ast.unparse(s)[:50] for s in got])))
