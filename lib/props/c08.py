"""C08 Conversion is a normalisation that stabilises after one pass."""
import sys

from hypothesis import strategies as st

from .. import domain, irprops, kinds
from ..oracle import Policy, compare_ir
from ..runner import CaseResult, Disc, raise_disc
from . import c01, c02, c03, c04

PID = "C08"
LEVEL = "exploration"
RULE = (
    "cases = generated interface description x kind in {rest,numpydoc,google,class,function,method,argparse} x emitter "
    "options; t1 = emit(ir), t(n+1) = emit(parse(t(n))) with the same options; oracle: t2 == t3 byte for byte, and no "
    "exception in pass 2 or 3 after a successful pass 1 (a failing pass 1 is the business of C01-C04 and only counted); "
    "separate phases: entries longer than the width with word_wrap on (every kind), and - for function and method - a "
    "return entry whose default is a number or bool, falsy ones included (the carried-over body must not repeat its return). A "
    "failing pass is attributed by the shape of the description that ENTERED it (the normalised one), DESIGN.md section 5. "
    "distinct = canonical-JSON hash; non-trivial = >=1 default, prose not ending in a full stop, and a return entry - or "
    ">=3 parameters with >=1 default"
)
ASSUMPTIONS = ["same emitter options in every pass", "prose kept below the wrap width (C18 covers wrapping)"]
SRC = {"rest": c01, "numpydoc": c01, "google": c01, "class": c02, "function": c03, "method": c03, "argparse": c04}
CORE_ALLOWED = ()
_F = []
for _k in kinds.KINDS:
    for _knob in SRC[_k].FRONTIER_KNOBS:
        if not _knob.startswith("cfg:"):
            _F.append("%s|%s" % (_k, _knob))
# wrapping: prose / summary / type longer than the width, word_wrap on (C18 judges the meaning, here only the fixed point)
WRAP_KNOBS = tuple("%s|wrap_long" % k for k in kinds.KINDS)
# a return entry whose default is a plain number or bool (the falsy ones included): the function kinds carry the body of
# the parsed function into the next emission and must replace, not repeat, its `return` statement
SCALAR_RETURN_KNOBS = ("function|scalar_return", "method|scalar_return")
SCALAR_RETURNS = (("int", "```0```"), ("int", "```7```"), ("int", "```-1```"), ("bool", "```False```"), ("bool", "```True```"),
                  ("float", "```0.0```"), ("float", "```1.5```"))
FRONTIER_KNOBS = tuple(_F)
FLOORS = {"kind=class": 0.03, "kind=argparse": 0.03, "kind=numpydoc": 0.03, "kind=google": 0.03, "kind=rest": 0.03,
          "kind=function": 0.03, "kind=method": 0.03}


def budgets(tier):
    if tier == "quick":
        return {"core": 1000, "frontier": 8, "shards": 1}
    return {"core": 16 * 5000, "frontier": 16 * 60, "shards": 16}


def mod():
    return sys.modules[__name__]


def extra_phases(coll, tier, seed_value, shard, nshards):
    """Wrapping phase: every kind with word_wrap on and an entry longer than the width."""
    from ..runner import hyp_survey

    n = 60 if tier == "quick" else 16 * 400 // nshards
    for i, knob in enumerate(WRAP_KNOBS):
        hyp_survey(mod(), coll, "frontier", knob, n, (seed_value + 104729 * (i + 1)) % (2 ** 32))
    m = 40 if tier == "quick" else 16 * 300 // nshards
    for i, knob in enumerate(SCALAR_RETURN_KNOBS):
        hyp_survey(mod(), coll, "frontier", knob, m, (seed_value + 15485863 * (i + 1)) % (2 ** 32))


def _kind_strategy(kind, mode, knob):
    src = SRC[kind]
    kw = {}
    if kind == "argparse":
        kw = dict(argparse_only=True, base_exclude=())
    ir = domain.ir_strategy(allowed=tuple(src.CORE_ALLOWED), forced=knob if mode == "frontier" else None, **kw)
    return st.builds(lambda i, o: {"kind": kind, "ir": i, "opts": o}, ir, kinds.opts_strategy(kind))


def strategy(mode, knob=None):
    if mode == "frontier":
        kind, k = knob.split("|")
        if k == "wrap_long":
            return st.sampled_from(("long_prose", "long_prose", "long_summary", "long_type")).flatmap(
                lambda lk: _kind_strategy(kind, mode, lk)).map(lambda c: dict(c, opts=dict(c["opts"], word_wrap=True)))
        if k == "scalar_return":
            def _with_return(c, td):
                r = dict(c["ir"].get("returns") or {})
                c["ir"]["returns"] = {"typ": td[0], "doc": r.get("doc") or "the outcome", "default": td[1]}
                return c

            return st.builds(_with_return, _kind_strategy(kind, "core", None), st.sampled_from(SCALAR_RETURNS))
        return _kind_strategy(kind, mode, k)
    return st.sampled_from(kinds.KINDS).flatmap(lambda kind: _kind_strategy(kind, "core", None))


def valid(case):
    return (isinstance(case, dict) and set(case) == {"kind", "ir", "opts"} and case["kind"] in kinds.KINDS
            and domain.valid_ir(case["ir"]) and kinds.valid_opts(case["kind"], case["opts"]))


STRICT = Policy()
WIDTH = 100  # doctrans' default line length; the checks run with DOCTRANS_LINE_LENGTH unset


def _tags_of_ir(ir):
    try:
        c = kinds.ir_to_case(ir)
        t, _ = domain.tags_of(c)
        return c, t
    except Exception:
        return None, {"untaggable"}


def run_case(case):
    kind, cir, opts = case["kind"], case["ir"], case["opts"]
    tags1, _ = domain.tags_of(cir)
    tags = {"kind=" + kind} | {"%s=%s" % kv for kv in opts.items()} | {"in:" + t for t in tags1}
    r = cir.get("returns") or {}
    nontrivial = (any("default" in p for p in cir["params"]) and any(not (p.get("doc") or ".").endswith(".") for p in cir["params"])
                  and bool(r)) or (len(cir["params"]) >= 3 and any("default" in p for p in cir["params"]))
    try:
        t1 = kinds.emit_text(kind, domain.to_ir(cir), opts)
        ir2 = kinds.parse_text(kind, t1, opts)
    except Exception:
        return CaseResult([], tags | {"pass1_failed"}, False, "pass 1 failed (not judged here)")
    c2, tags2 = _tags_of_ir(ir2)
    tags |= tags2
    if opts.get("word_wrap"):
        try:
            flat = kinds.emit_text(kind, domain.to_ir(cir), dict(opts, word_wrap=False))
            if max(map(len, flat.split("\n"))) > WIDTH:
                tags.add("unwrapped_exceeds_width")
        except Exception:
            pass
    try:
        t2 = kinds.emit_text(kind, ir2, opts)
    except Exception as e:
        return CaseResult([raise_disc(e, "emit2")], tags, nontrivial, "emit in pass 2 raised")
    try:
        ir3 = kinds.parse_text(kind, t2, opts)
    except Exception as e:
        return CaseResult([raise_disc(e, "parse2")], tags, nontrivial, "parse in pass 2 raised")
    try:
        t3 = kinds.emit_text(kind, ir3, opts)
    except Exception as e:
        c3, tags3 = _tags_of_ir(ir3)
        return CaseResult([raise_disc(e, "emit3")], tags | tags3, nontrivial, "emit in pass 3 raised")
    discs = []
    if t2 != t3:
        # name the unstable aspect by comparing the descriptions behind t2 and t3
        sub = []
        if c2 is not None:
            try:
                ir2b = kinds.parse_text(kind, t1, opts)  # ir2 may have been mutated by the emitter
                c2b = kinds.ir_to_case(ir2b)
                sub = compare_ir(c2b, ir3, STRICT)
            except Exception:
                sub = []
        if sub:
            seen = set()
            for d in sub:
                if d.aspect not in seen:
                    seen.add(d.aspect)
                    discs.append(Disc("unstable:" + d.aspect, d.where, "%s | t2=%r t3=%r" % (d.detail[:150], t2[:120], t3[:120]), d.ptags))
        else:
            import difflib

            diff = [l for l in difflib.unified_diff(t2.splitlines(), t3.splitlines(), lineterm="", n=0) if not l.startswith(("---", "+++", "@@"))]
            discs.append(Disc("unstable:text", "text", " / ".join(diff[:6])[:300]))
    return CaseResult(discs, tags, nontrivial, "t1==t2:%s t2==t3:%s" % (t1 == t2, t2 == t3), evals=3)
