"""C14 sync_properties changes exactly the addressed property."""
import ast
import contextlib
import io
import os
import shutil
import sys
import tempfile

from hypothesis import strategies as st

from .. import progs
from ..runner import CaseResult, Disc, raise_disc

PID = "C14"
LEVEL = "exploration"
RULE = (
    "cases = generated (input module, output module) x 1..3 (input location, output location) pairs drawn from the locations "
    "the reference model lists (module-level assignment, class attribute, function / method argument, positional or "
    "keyword-only) plus a share of unresolvable addresses x wrap template in {none, Optional[{output_param}], "
    "Optional[Union[{output_param}, str]]} x eval on/off (eval: module-level tuples/lists of constants) x API / CLI entry "
    "(main(argv) in process). Oracle: input file bytes unchanged; output parses; with the addressed nodes (and the default "
    "that belongs to an addressed argument) masked, the output tree is identical before/after; every pair applied: the "
    "node now at the output location carries the input node's annotation (wrapped / Literal of the evaluated values); an "
    "unresolvable address raises AND leaves the output file byte-identical. distinct = canonical-JSON hash; non-trivial = "
    ">=2 pairs, or an output module with >=2 definitions sharing the addressed simple name"
)
ASSUMPTIONS = ["a non-eval sync replaces the whole parameter/attribute, name included (pinned by the repository's own tests)",
               "names unique per scope except deliberate re-binding; function bodies hold no named definitions"]
CORE_ALLOWED = ()
FRONTIER_KNOBS = ("valued_input", "cross_kind", "bad_address", "out_fn_has_defaults", "module_doc", "valued_same_name", "chained_pairs")
FLOORS = {"pairs>=2": 0.05, "wrap": 0.1, "eval": 0.02}
WRAPS = (None, None, "Optional[{output_param}]", "Optional[Union[{output_param}, str]]")


def budgets(tier):
    if tier == "quick":
        return {"core": 1200, "frontier": 400, "shards": 4}
    return {"core": 16 * 800, "frontier": 16 * 150, "shards": 16}


def mod():
    return sys.modules[__name__]


ARGK = ("arg", "kwonlyarg")
ATTRK = ("ann",)


def _locs(m):
    tree = ast.parse(progs.render(m))
    return tree, progs.model_locations(tree)


def _has_default(tree, path):
    node, kind = progs.model_resolve(tree, path)
    fn, _ = progs.model_resolve(tree, path[:-1])
    if kind == "arg":
        i = fn.args.args.index(node)
        return i >= len(fn.args.args) - len(fn.args.defaults)
    if kind == "kwonlyarg":
        return fn.args.kw_defaults[fn.args.kwonlyargs.index(node)] is not None
    return False


@st.composite
def _chained(draw):
    """Two pairs in one call where the INPUT address of the first is also an OUTPUT address of the second, and the slot the
    first pair writes comes earlier in the output file than the node the second pair addresses:
    (A.x -> B.y), (C.w -> A.x) with class B before class A in the output file."""
    a, b, c = draw(st.permutations(("Alpha", "Beta", "Gamma")))
    x, y, w = draw(st.permutations(("x", "y", "w")))
    ann = lambda n, t, v: {"k": "ann", "name": n, "typ": t, "value": v}
    cls = lambda n, body: {"k": "class", "name": n, "body": body}
    inp = {"doc": None, "trailing_newline": True, "body": [
        cls(a, [ann(x, "int", "1")]), cls(c, [ann(w, "str", "'s'")]),
        {"k": "def", "name": "helper", "first": None, "args": [{"name": x, "typ": None, "default": "0"}], "kwonly": [], "kwarg": None, "ret": "return 1"}]}
    out = {"doc": None, "trailing_newline": draw(st.booleans()), "body": [
        {"k": "assign", "name": "CONST", "value": "1"},
        cls(b, [ann(y, "float", "2.0"), ann("keep", "int", "3")]),
        cls(a, [ann(x, "bytes", "b''"), ann("other", "int", "4")])]}
    return {"input": inp, "output": out, "pairs": [[[a, x], [b, y]], [[c, w], [a, x]]],
            "wrap": draw(st.sampled_from((None, None, WRAPS[1]))), "eval": False, "cli": draw(st.booleans())}


@st.composite
def _case(draw, knob):
    if knob == "chained_pairs" or (knob is None and draw(st.integers(0, 11)) == 0):
        return draw(_chained())
    ev = (knob is None and draw(st.integers(0, 4)) == 0) or (knob == "out_fn_has_defaults" and draw(st.booleans()))
    out = draw(progs.module(min_size=2, max_size=5, rebind=False))
    out["doc"] = "Module docstring." if knob == "module_doc" else None  # re-indented on read: a shape of its own
    otree, olocs = _locs(out)
    if ev:
        names = draw(st.lists(st.sampled_from(("opts", "nums", "modes")), min_size=1, max_size=2, unique=True))
        vals = {"opts": "('a', 'b')", "nums": "[1, 2, 3]", "modes": "('r', 'w', 'x')"}
        inp = {"doc": None, "body": [{"k": "assign", "name": n, "value": vals[n]} for n in names], "trailing_newline": True}
    else:
        inp = draw(progs.module(min_size=2, max_size=5, rebind=False))
    itree, ilocs = _locs(inp)

    def ok_in(l):
        p, k = l
        if ev:
            return k == "assign"
        if k in ARGK:
            fn, _ = progs.model_resolve(itree, p[:-1])
            if p[-1] in ("self", "cls"):
                return False
            return knob == "valued_input" or True
        if k == "ann":
            node, _ = progs.model_resolve(itree, p)
            return (node.value is None) != (knob == "valued_input") or knob == "valued_input"
        return False

    def ok_out(l):
        p, k = l
        if p[-1] in ("self", "cls"):
            return False
        return k in ARGK or k in ATTRK or k == "kwarg"

    ins = [l for l in ilocs if ok_in(l)]
    outs = [l for l in olocs if ok_out(l)]
    if knob == "valued_input":
        ins = [l for l in ins if l[1] == "ann" and progs.model_resolve(itree, l[0])[0].value is not None] or ins
        outs = [l for l in outs if l[1] in ARGK] or outs
    if not ins or not outs:
        return {"input": inp, "output": out, "pairs": [], "wrap": None, "eval": ev, "cli": False}
    wrap = draw(st.sampled_from(WRAPS))  # the template wraps "all" replacements: the Literal of eval mode too
    if knob == "repeated_input_wrap":
        wrap = WRAPS[2]
    if knob == "valued_same_name":
        # a valued annotated assignment of the input synced onto an argument OF THE SAME NAME in a function with defaults
        tg = [o for o in olocs if o[1] in ARGK and o[0][-1] not in ("self", "cls") and _method_with_defaults(otree, o[0])]
        if tg:
            tg_kw = [o for o in tg if o[1] == "kwonlyarg"]
            tg_al = [o for o in tg if o[1] == "arg" and _all_defaulted(otree, o[0])]
            pool = tg_al if tg_al and draw(st.booleans()) else (tg_kw if tg_kw and draw(st.booleans()) else tg)
            in_cls = [o for o in pool if _first_arg(otree, o[0]) == "cls"]
            if in_cls and draw(st.booleans()):
                pool = in_cls  # class methods: the implicit first argument is `cls`, not `self`
            o = draw(st.sampled_from(pool))
            nm = o[0][-1]
            inp["body"] = [s_ for s_ in inp["body"] if s_.get("name") != nm]
            inp["body"].append({"k": "ann", "name": nm, "typ": draw(st.sampled_from(progs.TYPES)), "value": draw(st.sampled_from(("7", "'k'", "0.25")))})
            if draw(st.booleans()):
                # an unrelated function of the same simple name, with a same-named defaulted argument, earlier in the file
                out["body"].insert(0, {"k": "class", "name": "Decoy0", "body": [
                    {"k": "def", "name": o[0][-2], "first": "self", "args": [{"name": "zz", "typ": None, "default": "1"}, {"name": nm, "typ": "int", "default": "1"}],
                     "kwonly": [], "kwarg": None, "ret": "return zz"}]})
            return {"input": inp, "output": out, "pairs": [[[nm], o[0]]], "wrap": wrap, "eval": False, "cli": draw(st.booleans())}
    n = draw(st.integers(1, 3))
    if knob == "stale_location":
        n = 3
    pairs, used_out, new_names = [], set(), set()
    for _ in range(n):
        i = draw(st.sampled_from(ins))
        cands = [o for o in outs if tuple(o[0]) not in used_out]
        if knob != "cross_kind" and not ev:
            # like for like: argument -> argument, attribute -> attribute (cross-kind replacement is a knob)
            cands = [o for o in cands if (o[1] in ARGK) == (i[1] in ARGK)] if knob != "valued_input" else cands
        if knob != "out_fn_has_defaults" and i[1] == "ann" and progs.model_resolve(itree, i[0])[0].value is not None:
            # a VALUED assignment onto an argument of a function with defaults is the shape of finding KF-Y06
            cands = [o for o in cands if not (o[1] in ARGK and _method_with_defaults(otree, o[0]))]
        if not cands:
            continue
        o = draw(st.sampled_from(cands))
        if knob == "out_fn_has_defaults":
            m2 = [x for x in cands if x[1] in ARGK and _method_with_defaults(otree, x[0])]
            if m2:
                o = draw(st.sampled_from(m2))
        if knob == "repeated_input_wrap" and pairs:
            i = (pairs[0][0], None)
        key = (tuple(o[0][:-1]), o[0][-1] if ev else i[0][-1])
        if key in new_names:
            continue  # two pairs must not give two nodes of one scope the same (input) name
        new_names.add(key)
        used_out.add(tuple(o[0]))
        # the replaced node takes the input's name: avoid creating a duplicate argument name in the target function
        if not ev and o[1] in ARGK:
            fn, _ = progs.model_resolve(otree, o[0][:-1])
            names_ = [a.arg for a in fn.args.args + fn.args.kwonlyargs] + ([fn.args.kwarg.arg] if fn.args.kwarg else [])
            if i[0][-1] in names_ and i[0][-1] != o[0][-1]:
                continue
        elif not ev:
            scope, _ = progs.model_resolve(otree, o[0][:-1]) if len(o[0]) > 1 else (otree, None)
            if i[0][-1] != o[0][-1] and i[0][-1] in progs.model_children(scope):
                continue  # the replaced statement takes the input's name: do not create a second binding of that name
        pairs.append([i[0], o[0]])
    if knob == "bad_address" and pairs:
        which = draw(st.integers(0, len(pairs) - 1))
        side = draw(st.integers(0, 1))
        pairs[which][side] = pairs[which][side][:-1] + ["nope"]
    return {"input": inp, "output": out, "pairs": pairs, "wrap": wrap, "eval": ev,
            "cli": draw(st.booleans())}


def _default_of(tree, path):
    """Default expression of the argument at `path` (None when it has none)."""
    fn, _ = progs.model_resolve(tree, path[:-1])
    if not isinstance(fn, ast.FunctionDef):
        return None
    pos = fn.args.args
    for j, a in enumerate(pos):
        if a.arg == path[-1]:
            k = j - (len(pos) - len(fn.args.defaults))
            return fn.args.defaults[k] if k >= 0 else None
    for j, a in enumerate(fn.args.kwonlyargs):
        if a.arg == path[-1]:
            return fn.args.kw_defaults[j]
    return None


def _first_arg(tree, path):
    fn, _ = progs.model_resolve(tree, path[:-1])
    return fn.args.args[0].arg if isinstance(fn, ast.FunctionDef) and fn.args.args else None


def _all_defaulted(tree, path):
    fn, _ = progs.model_resolve(tree, path[:-1])
    explicit = [a for a in fn.args.args if a.arg not in ("self", "cls")]
    return isinstance(fn, ast.FunctionDef) and len(fn.args.defaults) == len(explicit) > 0


def _method_with_defaults(tree, path):
    fn, kind = progs.model_resolve(tree, path[:-1])
    return isinstance(fn, ast.FunctionDef) and bool(fn.args.defaults)


def strategy(mode, knob=None):
    return _case(knob if mode == "frontier" else None)


def valid(case):
    try:
        return (isinstance(case, dict) and set(case) == {"input", "output", "pairs", "wrap", "eval", "cli"}
                and progs.valid_module(case["input"]) and progs.valid_module(case["output"])
                and all(len(p) == 2 and all(isinstance(s, str) for s in p[0] + p[1]) and p[0] and p[1] for p in case["pairs"])
                and case["wrap"] in WRAPS and isinstance(case["eval"], bool))
    except Exception:
        return False


def _ann_of(node):
    return getattr(node, "annotation", None)


def _mask(tree, paths):
    """Dump of `tree` with the nodes at `paths` (and the default belonging to an addressed argument) masked."""
    for path in paths:
        node, kind = progs.model_resolve(tree, path)
        if node is None:
            continue
        parent, _ = progs.model_resolve(tree, path[:-1]) if len(path) > 1 else (tree, "module")
        if kind in ("arg", "kwonlyarg", "kwarg"):
            a = parent.args
            if kind == "arg":
                i = a.args.index(node)
                j = i - (len(a.args) - len(a.defaults))
                if j >= 0:
                    a.defaults[j] = ast.Constant("MASKED")
            elif kind == "kwonlyarg":
                i = a.kwonlyargs.index(node)
                if a.kw_defaults[i] is not None:
                    a.kw_defaults[i] = ast.Constant("MASKED")
            node.arg, node.annotation = "MASKED", None
        else:
            parent.body[parent.body.index(node)] = ast.parse("MASKED = 0").body[0]
    return ast.dump(ast.parse(ast.unparse(ast.fix_missing_locations(tree))))


def _masked_tree(tree, paths):
    _mask(tree, paths)
    return tree


def run_case(case):
    from doctrans.sync_properties import sync_properties

    in_src, out_src = progs.render(case["input"]), progs.render(case["output"])
    itree, otree = ast.parse(in_src), ast.parse(out_src)
    pairs = case["pairs"]
    tags = {"eval" if case["eval"] else "noeval", "cli=%s" % case["cli"], "wrap" if case["wrap"] else "nowrap",
            "pairs=%d" % len(pairs)}
    if len(pairs) >= 2:
        tags.add("pairs>=2")
    if len({tuple(i) for i, _ in pairs}) < len(pairs):
        tags.add("repeated_input")
    if any(tuple(pairs[a][0]) == tuple(pairs[b][1]) for a in range(len(pairs)) for b in range(a + 1, len(pairs))):
        tags.add("stale_location")
    resolvable = True
    for i, o in pairs:
        inode, ik = progs.model_resolve(itree, i)
        onode, ok = progs.model_resolve(otree, o)
        tags.add("in=%s" % (ik or "none"))
        tags.add("out=%s" % (ok or "none"))
        if inode is None or onode is None:
            resolvable = False
        else:
            if (ik in ARGK) and ok not in ARGK + ("kwarg",):
                tags.add("arg_to_stmt")
            if ik not in ARGK and ok in ARGK + ("kwarg",):
                tags.add("stmt_to_arg")
            if ik == "ann" and inode.value is not None:
                tags.add("valued_input")
                if ok in ARGK and _method_with_defaults(otree, o) and i[-1] == o[-1]:
                    # finding KF-Y06 needs defaults that do not line up with the positional arguments; when every
                    # explicit positional argument has a default they do line up, and the sync must be exact
                    tags.add("valued_same_name:%s" % ("arg_aligned" if ok == "arg" and _all_defaulted(otree, o) else ok))
            if ok in ARGK and _method_with_defaults(otree, o):
                tags.add("out_fn_has_defaults")
            if ok == "kwarg":
                tags.add("kwarg_out")
    if not resolvable:
        tags.add("bad_address")
    if case["output"].get("doc"):
        tags.add("module_doc")
    if case["wrap"] and len({tuple(i) for i, _ in pairs}) < len(pairs):
        tags.add("repeated_input_wrap")
    if not pairs:
        return CaseResult([], tags | {"no_pairs"}, False, "no addressable pair in this module pair", evals=0)
    names = [p[-1] for p, _ in progs.model_locations(otree)]
    nontrivial = len(pairs) >= 2 or any(names.count(o[-1]) > 1 for _, o in pairs)
    d = tempfile.mkdtemp(prefix="c14_")
    discs = []
    try:
        fin, fout = os.path.join(d, "input_mod.py"), os.path.join(d, "output_mod.py")
        with open(fin, "w") as f:
            f.write(in_src)
        with open(fout, "w") as f:
            f.write(out_src)
        raised = None
        try:
            with contextlib.redirect_stdout(io.StringIO()), contextlib.redirect_stderr(io.StringIO()):
                if case["cli"]:
                    from doctrans.__main__ import main

                    argv = ["sync_properties", "--input-filename", fin, "--output-filename", fout]
                    for i, o in pairs:
                        argv += ["--input-param", ".".join(i), "--output-param", ".".join(o)]
                    if case["eval"]:
                        argv.append("--input-eval")
                    if case["wrap"]:
                        argv += ["--output-param-wrap", case["wrap"]]
                    main(argv)
                else:
                    sync_properties(input_eval=case["eval"], input_filename=fin, input_params=[".".join(i) for i, _ in pairs],
                                    output_filename=fout, output_params=[".".join(o) for _, o in pairs],
                                    output_param_wrap=case["wrap"])
        except BaseException as e:  # SystemExit from argparse included
            if isinstance(e, KeyboardInterrupt):
                raise
            raised = e
        with open(fin) as f:
            if f.read() != in_src:
                discs.append(Disc("input-file-changed", "input", "bytes of the input file changed"))
        with open(fout) as f:
            after = f.read()
        if not resolvable:
            if raised is None:
                discs.append(Disc("bad-address:no-error", "pairs", "an address does not resolve, yet no error was raised"))
            if after != out_src:
                discs.append(Disc("bad-address:output-changed", "output", "output file changed although an address does not resolve"))
            return CaseResult(discs, tags, nontrivial, "unresolvable address: %s" % (type(raised).__name__ if raised else "no error"))
        if raised is not None:
            discs.append(raise_disc(raised, "sync_properties") if isinstance(raised, Exception) else
                         Disc("raise:sync_properties:SystemExit", "cli", str(raised)))
            if after != out_src:
                discs.append(Disc("failed-but-output-changed", "output", "the call raised and the output file changed"))
            return CaseResult(discs, tags, nontrivial, "raised %s" % type(raised).__name__)
        try:
            atree = ast.parse(after)
        except SyntaxError as e:
            discs.append(Disc("output-unparsable", "output", "%s: %r" % (e, after[:300])))
            return CaseResult(discs, tags, nontrivial, "output does not parse")
        # expected new locations and annotations
        new_paths = []
        for i, o in pairs:
            inode, ik = progs.model_resolve(ast.parse(in_src), i)
            new_name = o[-1] if case["eval"] else i[-1]
            np_ = o[:-1] + [new_name]
            new_paths.append(np_)
            got, gk = progs.model_resolve(atree, np_)
            if got is None:
                discs.append(Disc("pair-not-applied", ".".join(o), "no node at %s after the sync" % ".".join(np_)))
                continue
            if case["eval"]:
                vals = ast.literal_eval(next(s for s in case["input"]["body"] if s["name"] == i[-1])["value"])
                want = "Literal[%s]" % ", ".join(repr(v) for v in vals)
                if case["wrap"]:
                    want = case["wrap"].format(output_param=want)
            else:
                ann = _ann_of(inode)
                if ann is None:
                    want = None
                else:
                    want = ast.unparse(ann)
                    if case["wrap"]:
                        want = case["wrap"].format(output_param=want)
            if (not case["eval"] and ik == "ann" and inode.value is not None and gk == "arg" and i[-1] == o[-1]
                    and _all_defaulted(ast.parse(out_src), o)):
                # a positional parameter is replaced by the one of the input file, its value included (where the defaults
                # line up with the arguments - otherwise finding KF-Y06; keyword-only defaults are never transferred and
                # nothing the repository documents or tests says they should be)
                gd = _default_of(atree, np_)
                if gd is None or ast.dump(gd) != ast.dump(inode.value):
                    discs.append(Disc("default-not-taken", ".".join(o), "expected default %s got %s" % (
                        ast.unparse(inode.value), None if gd is None else ast.unparse(gd))))
            gann = _ann_of(got)
            if (want is None) != (gann is None) or (want is not None and ast.dump(ast.parse(want, mode="eval").body) != ast.dump(ast.parse(ast.unparse(gann), mode="eval").body)):
                discs.append(Disc("annotation", ".".join(o), "expected %s got %s" % (want, ast.unparse(gann) if gann is not None else None)))
        before_dump = _mask(ast.parse(out_src), [o for _, o in pairs])
        after_dump = _mask(atree, new_paths)
        if before_dump != after_dump:
            import difflib

            b = ast.unparse(ast.parse(before_dump and ast.unparse(_masked_tree(ast.parse(out_src), [o for _, o in pairs])))).splitlines()
            a = ast.unparse(atree).splitlines()
            diff = [l for l in difflib.unified_diff(b, a, lineterm="", n=0) if not l.startswith(("---", "+++", "@@"))]
            discs.append(Disc("other-node-changed", "output", " / ".join(diff[:8])[:400]))
    finally:
        shutil.rmtree(d, ignore_errors=True)
    return CaseResult(discs, tags, nontrivial, "%d pairs applied" % len(pairs))
