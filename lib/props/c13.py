"""C13 Conversions do not interfere through shared inputs."""
import ast
import copy
import itertools
import sys

from hypothesis import strategies as st

from .. import domain, irprops, kinds
from ..runner import CaseResult, Disc, raise_disc
from . import c03

PID = "C13"
LEVEL = "exploration"
RULE = (
    "cases = generated interface description (with/without return entry, with/without a carried function body) x ALL "
    "sequences of length 1..L (quick L=3: 84, thorough L=4: 340, enumerated) over {emit class, emit class with __call__, "
    "emit function, emit argparse, emit docstring} applied to ONE shared description object; oracle: the text produced by "
    "call k equals the text the same call produces on a fresh deep copy taken before the sequence. Second family: parse "
    "sequences sharing one syntax tree ({parse function, emit class with __call__ from the parsed description, parse "
    "function again, emit function}); oracle: ast.dump of the shared tree unchanged and every result equal to the result on "
    "a fresh tree. evaluations = emitter/parser calls compared; distinct = canonical-JSON hash of the case; non-trivial = "
    "description with a return entry (the class/docstring emitters then have something to move) or a carried body"
)
ASSUMPTIONS = ["text equality of unparsed artefacts is the observable", "emitter options fixed to defaults except default text on for the docstring emitter"]
# doctrans is compared with itself here (shared vs fresh object), so every shape is fair game: operations that fail on
# a fresh object are skipped (they are judged by C02-C04/C06)
CORE_ALLOWED = tuple(k for k in domain.MUTATORS if not k.startswith("long_"))
TIDY = ("kwargs_param", "float_default", "negative_int", "zero_int", "bool_false", "none_default", "returns", "prose_trailing_stop", "str_with_space")
FRONTIER_KNOBS = ()
FLOORS = {"returns": 0.15, "body": 0.2}
OPS = ("class", "class_call", "function", "argparse", "docstring")


def budgets(tier):
    if tier == "quick":
        return {"core": 60, "frontier": 0, "shards": 1, "L": 3}
    return {"core": 16 * 40, "frontier": 0, "shards": 16, "L": 4}


_TIER_L = {"L": 3}


def mod():
    return sys.modules[__name__]


def configure(tier, b):
    _TIER_L["L"] = b["L"]


@st.composite
def _body(draw, names):
    lines = []
    pool = list(names) or ["zzz"]
    for i in range(draw(st.integers(1, 3))):
        kind = draw(st.sampled_from(("assign", "call", "aug")))
        n = draw(st.sampled_from(pool))
        if kind == "assign":
            lines.append("tmp%d = %s" % (i, n))
        elif kind == "call":
            lines.append("print(%s, sep=tmp0)" % n if any(l.startswith("tmp0") for l in lines) else "print(%s)" % n)
        else:
            lines.append("acc = [%s, %d]" % (n, i))
    if draw(st.booleans()):
        lines.append("return %s" % draw(st.sampled_from(pool + ["None"])))
    return lines


@st.composite
def _case(draw):
    # half of the descriptions are tidy ones (few shapes, so that most operations succeed on them); a return entry with a
    # default is forced into a third - it is what the class / function emitters move around and cut from the body
    tidy = draw(st.booleans())
    forced = draw(st.sampled_from((None, None, "returns_default", "two_announcements")))
    ir = draw(domain.ir_strategy(allowed=TIDY if tidy else CORE_ALLOWED, forced=forced, max_params=4))
    if ir.get("returns") and "doc" in ir["returns"] and draw(st.integers(0, 2)) == 0:
        ir["returns"]["default"] = domain.NONE_STR  # what parse.function records for a documented `return None`
    body = None
    if draw(st.booleans()):
        body = draw(_body([p["name"] for p in ir["params"] if not p["name"].endswith("kwargs")]))
    # beyond the exhaustive part: a few longer sequences (with repetitions) drawn by Hypothesis
    extra = draw(st.lists(st.lists(st.sampled_from(OPS), min_size=5, max_size=8), min_size=2, max_size=4))
    return {"ir": ir, "body": body, "L": _TIER_L["L"], "extra": extra}


def strategy(mode, knob=None):
    return _case()


def valid(case):
    try:
        if not (isinstance(case, dict) and set(case) - {"extra"} == {"ir", "body", "L"} and domain.valid_ir(case["ir"]) and case["L"] in (1, 2, 3, 4)):
            return False
        if case["body"] is not None:
            ast.parse("\n".join(case["body"]) or "pass")
            if not case["body"]:
                return False
        return True
    except SyntaxError:
        return False


def build_ir(case):
    ir = domain.to_ir(case["ir"], name=kinds.FUNC_NAME, typ="static")
    if case["body"]:
        body = ast.parse("\n".join(case["body"])).body
        ir["_internal"] = {"body": body, "from_name": kinds.FUNC_NAME, "from_type": "static"}
        if isinstance(body[-1], ast.Return) and body[-1].value is not None and not (ir.get("returns") or {}).get("return_type", {}).get("default"):
            # as parse.function does for a body that ends in `return <expr>`: the expression is the return default
            from collections import OrderedDict

            rt = dict((ir.get("returns") or {}).get("return_type", {}) or {})
            v = body[-1].value
            # (`return None` is stored as the None marker, anything else as back-tick quoted source)
            rt["default"] = domain.NONE_STR if isinstance(v, ast.Constant) and v.value is None else "```%s```" % ast.unparse(v)
            rt.setdefault("doc", "the result")
            ir["returns"] = OrderedDict((("return_type", rt),))
    return ir


def apply(op, ir):
    from doctrans import emit
    from doctrans.source_transformer import to_code

    if op == "class":
        return to_code(emit.class_(ir, class_name=kinds.CLASS_NAME))
    if op == "class_call":
        return to_code(emit.class_(ir, class_name=kinds.CLASS_NAME, emit_call=True))
    if op == "function":
        return to_code(emit.function(ir, function_name=kinds.FUNC_NAME, function_type="static"))
    if op == "argparse":
        return to_code(emit.argparse_function(ir, function_name=kinds.ARGPARSE_NAME))
    return emit.docstring(ir, docstring_format="rest", emit_default_doc=True)


def run_case(case):
    L = case["L"]
    tags, _ = domain.tags_of(case["ir"])
    if case["body"]:
        tags.add("body")
    nontrivial = "returns" in tags or bool(case["body"])
    ref, usable = {}, []
    evals = 0
    for op in OPS:
        try:
            ref[op] = apply(op, build_ir(case))
            usable.append(op)
        except Exception:
            tags.add("fresh_fails:" + op)  # judged by C02-C04/C06, not here
        evals += 1
    discs = []
    pair_fail = {}
    seen_aspects = set()
    longer = [tuple(op for op in seq if op in usable) for seq in case.get("extra", [])]
    for n in list(range(1, L + 1)) + ["extra"]:
        for seq in (itertools.product(usable, repeat=n) if n != "extra" else longer):
            shared = build_ir(case)
            for k, op in enumerate(seq):
                evals += 1
                try:
                    out = apply(op, shared)
                except Exception as e:
                    d = raise_disc(e, "shared:%s" % ">".join(seq[: k + 1]))
                    asp = "raise:after:%s->%s:%s" % (seq[k - 1] if k else "-", op, type(e).__name__)
                    if asp not in seen_aspects:
                        seen_aspects.add(asp)
                        discs.append(Disc(asp, ">".join(seq[: k + 1]), d.detail))
                    break
                if out != ref[op]:
                    prev = seq[:k]
                    if n == 2:
                        pair_fail[(prev[0], op)] = True
                    culprits = [p for p in prev if pair_fail.get((p, op))]
                    asp = "interfere:%s->%s" % (culprits[0], op) if culprits else "interfere:seq:%s" % ">".join(seq[: k + 1])
                    if asp not in seen_aspects:
                        seen_aspects.add(asp)
                        discs.append(Disc(asp, ">".join(seq[: k + 1]), _first_diff(ref[op], out)))
                    break
    # ---- parse family: one shared tree
    if case["body"]:
        discs.extend(_parse_family(case, tags))
        evals += 6
        discs.extend(_parsed_class_family(case, tags))
        evals += 12
    return CaseResult(discs, tags | {"L=%d" % L}, nontrivial, "%d ops usable, %d interferences" % (len(usable), len(discs)), evals=evals)


def _first_diff(a, b):
    import difflib

    diff = [l for l in difflib.unified_diff(a.splitlines(), b.splitlines(), lineterm="", n=0) if not l.startswith(("---", "+++", "@@"))]
    return " / ".join(diff[:6])[:400]


def _parsed_class_family(case, tags):
    """A description that comes from parse.class_ of a class WITH a method (its `_internal` body is whatever the parser
    left there) shared by several class emissions: every emission must equal the one from a freshly parsed description."""
    from doctrans import emit, parse
    from doctrans.source_transformer import to_code

    out = []
    try:
        src = to_code(emit.class_(build_ir(case), class_name=kinds.CLASS_NAME, emit_call=True))
        ops = {"class": lambda ir: to_code(emit.class_(ir, class_name=kinds.CLASS_NAME)),
               "class_call": lambda ir: to_code(emit.class_(ir, class_name=kinds.CLASS_NAME, emit_call=True))}
        fresh = {k: f(parse.class_(ast.parse(src).body[0])) for k, f in ops.items()}
    except Exception:
        tags.add("parsed_class_family:raises")
        return out
    tags.add("parsed_class_family")
    for seq in itertools.product(ops, repeat=2):
        shared = parse.class_(ast.parse(src).body[0])
        for k, op in enumerate(seq):
            try:
                got = ops[op](shared)
            except Exception as e:
                out.append(Disc("parsed-class:raise:%s" % type(e).__name__, ">".join(seq[: k + 1]), str(e)[:200]))
                break
            if got != fresh[op]:
                out.append(Disc("parsed-class:interfere:%s->%s" % (seq[k - 1] if k else "-", op), ">".join(seq[: k + 1]), _first_diff(fresh[op], got)))
                break
    seen, uniq = set(), []
    for d in out:
        if d.aspect not in seen:
            seen.add(d.aspect)
            uniq.append(d)
    return uniq


def _parse_family(case, tags):
    from doctrans import emit, parse
    from doctrans.source_transformer import to_code

    out = []
    try:
        src = apply("function", build_ir(case))
    except Exception:
        return out
    tree = ast.parse(src)
    node = tree.body[0]
    before = ast.dump(tree)
    try:
        fresh_ir_text = to_code(emit.function(parse.function(ast.parse(src).body[0]), function_name=kinds.FUNC_NAME, function_type="static"))
    except Exception:
        return out
    try:
        ir1 = parse.function(node)
        if ast.dump(tree) != before:
            out.append(Disc("tree-mutated:parse.function", "tree", "ast.dump changed after parse.function"))
        if ir1["params"]:
            try:
                to_code(emit.class_(ir1, class_name=kinds.CLASS_NAME, emit_call=True))
            except Exception:
                tags.add("parse_family:class_raises")  # an emitter failure is judged by C02/C06, not here
        if ast.dump(tree) != before:
            out.append(Disc("tree-mutated:emit.class_call", "tree", "ast.dump of the parsed tree changed after emit.class_(emit_call=True) on its description"))
        ir2 = parse.function(node)
        t2 = to_code(emit.function(ir2, function_name=kinds.FUNC_NAME, function_type="static"))
        if t2 != fresh_ir_text:
            out.append(Disc("reparse-differs", "tree", _first_diff(fresh_ir_text, t2)))
    except Exception:
        tags.add("parse_family:raises")  # the same steps raise on a fresh tree too (fresh_ir_text succeeded only for emit.function)
    return out
