"""C10 sync is idempotent, never edits the truth, and reports changes truthfully."""
import ast
import os
import shutil
import sys
import tempfile

from hypothesis import strategies as st

from .. import domain, project
from ..runner import CaseResult, Disc, raise_disc
from . import c09

PID = "C10"
LEVEL = "exploration"
RULE = (
    "cases = histories: an initial project (truth kind, description, pre-state per target as in C09) followed by 2..6 "
    "generated steps from {sync(truth=k) with the same or another truth kind, edit_truth(new description), "
    "touch_target(kind, pre-state)}; one class/function target in four starts with its name bound twice in the module; the harness keeps a model {file: bytes}. Invariants after every sync: (i) the returned "
    "mapping marks exactly the files whose bytes changed; (ii) every printed modified/unchanged line agrees with it; (iii) the "
    "truth file's bytes are unchanged; (iv) a sync that directly follows a sync with the same arguments changes no file and "
    "reports no change; (v) every file parses. distinct = canonical-JSON hash of the history; non-trivial = history with >=2 "
    "consecutive syncs and >=1 edit_truth followed by a sync"
)
ASSUMPTIONS = ["API entry (conformance.ground_truth) with the Namespace __main__ builds", "descriptions from the argparse-expressible core"]
CORE_ALLOWED = c09.CORE_ALLOWED
FRONTIER_KNOBS = ("method_created", "nested_class")
FLOORS = {"has_resync": 0.5, "has_edit": 0.3}
KEYS = project.KIND_KEYS


def budgets(tier):
    if tier == "quick":
        return {"core": 320, "frontier": 40, "shards": 8}
    return {"core": 16 * 150, "frontier": 16 * 30, "shards": 16}


def mod():
    return sys.modules[__name__]


@st.composite
def _history(draw, knob):
    base = draw(c09._case(knob if knob != "nested_class" else None))
    # a class target nested in another class is a shape of an open finding here (KF-H02): excluded from the core
    if knob == "nested_class":
        if base["truth"] == "class":
            base["truth"] = "argparse_function"
            base["states"] = {"class": "stale", "function": "agreeing"}
        base["states"]["class"] = base["states"].get("class") if base["states"].get("class") in ("stale", "agreeing") else "stale"
        base["nested"] = True
    else:
        base["nested"] = False
    # stale FunctionDef targets are simply never touched (reported unchanged, truthfully): fine for this property, so
    # allow them here
    for k in base["states"]:
        if base["states"][k] is not None and k != "class" and draw(st.integers(0, 3)) == 0 and not (base["method"] and k == "function"):
            base["states"][k] = "stale"
    steps = [{"op": "sync", "truth": base["truth"]}]
    n = draw(st.integers(2, 6))
    for j in range(n):
        op = "sync" if j == 0 else draw(st.sampled_from(("sync", "sync", "edit", "edit", "touch", "switch")))
        if op == "sync":
            steps.append({"op": "sync", "truth": None})  # same truth as the previous sync
        elif op == "switch":
            steps.append({"op": "sync", "truth": draw(st.sampled_from(KEYS))})
        elif op == "edit":
            steps.append({"op": "edit", "ir": draw(c09._ir())})
        else:
            k = draw(st.sampled_from(KEYS))
            allowed = [s_ for s_ in project.STATES if not (base["method"] and k == "function" and s_ in ("missing", "empty", "absent", "placeholder"))]
            steps.append({"op": "touch", "kind": k, "state": draw(st.sampled_from(allowed)), "ir": draw(c09._ir())})
    if steps[-1]["op"] != "sync":
        steps.append({"op": "sync", "truth": None})
    base["steps"] = steps
    base["path_style"] = draw(st.sampled_from(("abs", "abs", "relative", "symlink")))
    # the file that holds the truth may also be named as the file of ANOTHER kind (one module with the class and the
    # function): it is still the truth file and must never be written
    others = [k for k in KEYS if k != base["truth"]]
    if knob is None and not base["method"] and draw(st.integers(0, 5)) == 0:
        base["shared"] = draw(st.sampled_from(others))
    # a target module may bind the searched name twice (an early stub that is redefined further down): whichever of the
    # two doctrans works on, the one it compares must be the one it rewrites, so the reports stay truthful
    dups = [k for k, v in base["states"].items() if v in ("stale", "agreeing") and k != base["truth"] and k != base.get("shared")]
    if knob is None and not base["method"] and dups and draw(st.integers(0, 3)) == 0:
        base["dup"] = draw(st.sampled_from(sorted(dups, key=lambda k: k != "class")[:1] + dups))
    return base


def strategy(mode, knob=None):
    return _history(knob if mode == "frontier" else None)


def valid(case):
    try:
        base = dict({k: case[k] for k in ("ir", "stale_ir", "truth", "states", "method")}, nested=case.get("nested", False), cli=case.get("cli", False))  # (no mirror file here)
        if not c09.valid(base) or set(case) - {"nested", "cli", "mirror", "shared", "dup"} != {"ir", "stale_ir", "truth", "states", "method", "steps", "path_style"}:
            return False
        if case.get("shared") is not None and (case["shared"] not in KEYS or case["shared"] == case["truth"]):
            return False
        if case.get("dup") is not None and (case["dup"] not in KEYS or case["dup"] == case["truth"] or case["method"]):
            return False
        if case["path_style"] not in ("abs", "relative", "symlink"):
            return False
        if not case["steps"] or case["steps"][0]["op"] != "sync":
            return False
        for s_ in case["steps"]:
            if s_["op"] == "sync":
                if s_.get("truth") not in KEYS + (None,):
                    return False
            elif s_["op"] == "edit":
                if not domain.valid_ir(s_["ir"]):
                    return False
            elif s_["op"] == "touch":
                if s_["kind"] not in KEYS or s_["state"] not in project.STATES or not domain.valid_ir(s_["ir"]):
                    return False
            else:
                return False
        return True
    except Exception:
        return False


def run_case(case):
    base = dict({k: case[k] for k in ("ir", "stale_ir", "truth", "states", "method")}, nested=case.get("nested", False), cli=case.get("cli", False))  # (no mirror file here)
    tags = c09.case_tags(base) | {"paths=" + case["path_style"]}
    steps = case["steps"]
    ops = [s_["op"] for s_ in steps]
    has_resync = any(a == "sync" and b == "sync" and steps[i + 1].get("truth") in (None,) for i, (a, b) in enumerate(zip(ops, ops[1:])))
    has_edit = any(a == "edit" and "sync" in ops[i + 1:] for i, a in enumerate(ops))
    if has_resync:
        tags.add("has_resync")
    if has_edit:
        tags.add("has_edit")
    if any(s_["op"] == "sync" and s_.get("truth") not in (None, case["truth"]) for s_ in steps):
        tags.add("truth_switch")
    nontrivial = has_resync and has_edit
    d = tempfile.mkdtemp(prefix="c10_")
    discs, seen = [], set()

    def add(aspect, where, detail):
        if aspect not in seen:
            seen.add(aspect)
            discs.append(Disc(aspect, where, detail))

    evals = 0
    try:
        try:
            paths, gold, _ = c09.setup_project(dict(base), d)
        except Exception:
            return CaseResult([], tags | {"setup_failed"}, False, "initial project could not be built", evals=0)
        method = case["method"]
        given = [case["truth"]] + [k for k, v in case["states"].items() if v is not None]
        truth = case["truth"]
        shared = case.get("shared")
        if shared:
            tags.add("truth_file_shared")
            if os.path.exists(paths[shared]):
                os.remove(paths[shared])
            paths = dict(paths, **{shared: paths[truth]})
            if shared not in given:
                given.append(shared)
        dup = case.get("dup")
        if dup and dup != truth and dup != shared and dup in given and os.path.isfile(paths[dup]) and not case.get("nested"):
            with open(paths[dup]) as f:
                s0 = f.read()
            try:
                ok = len(project.find_defs(s0, dup, method, False)[0]) == 1
            except SyntaxError:
                ok = False
            if ok:
                with open(paths[dup], "w") as f:
                    f.write(s0.rstrip("\n") + "\n\n\n" + project.def_source(dup, domain.to_ir(case["stale_ir"]), method, False))
                tags.add("duplicate_definition")
        last_sync_sig, dirty = None, True
        for i, s_ in enumerate(steps):
            if s_["op"] == "edit":
                try:
                    project.write_state(paths[truth], truth, "agreeing", lambda: domain.to_ir(s_["ir"]), None, method,
                                        nested=case.get("nested", False))
                    with open(paths[truth]) as f:
                        hw = project.handwritten(f.read(), truth, method)
                    with open(paths[truth], "w") as f:
                        f.write(hw)
                except Exception:
                    pass
                dirty = True
                continue
            if s_["op"] == "touch":
                k = s_["kind"]
                if k == truth or k not in given or k == shared:
                    continue
                try:
                    st_ = s_["state"]
                    if k == "class" and case.get("nested") and st_ in ("missing", "empty", "absent"):
                        st_ = "stale"  # a nested class target must already exist in its outer class (as in C09)
                    project.write_state(paths[k], k, st_, lambda: domain.to_ir(s_["ir"]), lambda: domain.to_ir(s_["ir"]), method,
                                        nested=case.get("nested", False))
                except Exception:
                    pass
                dirty = True
                continue
            # ---- sync
            new_truth = s_.get("truth") or truth
            if new_truth not in given or not os.path.isfile(paths[new_truth]) or shared:
                new_truth = truth
            try:
                defs, _ = project.find_defs(open(paths[new_truth]).read(), new_truth, method, case.get("nested", False))
            except SyntaxError:
                defs = []
            if len(defs) != 1:
                new_truth = truth  # a file that does not hold the definition cannot be the truth
            if new_truth != truth:
                dirty = True
            truth = new_truth
            before = project.snapshot(d)
            evals += 1
            try:
                res, printed = project.run_sync(paths, truth, method, given, case["path_style"], nested=case.get("nested", False),
                                                cli=case.get("cli", False))
            except BaseException as e:
                if isinstance(e, KeyboardInterrupt):
                    raise
                dd = raise_disc(e, "sync") if isinstance(e, Exception) else Disc("raise:sync:SystemExit", "sync", str(e))
                add(dd.aspect, "step %d" % i, dd.detail)
                after = project.snapshot(d)
                if after.get(os.path.basename(paths[truth])) != before.get(os.path.basename(paths[truth])):
                    add("truth-modified", "step %d" % i, "truth file %s changed" % truth)
                break
            after = project.snapshot(d)
            changed = {n for n in set(before) | set(after) if before.get(n) != after.get(n)}
            reported = {os.path.basename(f): bool(v) for f, v in res.items()}
            tname = os.path.basename(paths[truth])
            if tname in changed:
                add("truth-modified", "step %d" % i, "truth file %s changed" % truth)
            for n, flag in reported.items():
                if flag and n not in changed:
                    add("report:true-but-unchanged", "step %d:%s" % (i, n), "reported changed, bytes identical")
                if not flag and n in changed:
                    add("report:false-but-changed", "step %d:%s" % (i, n), "reported unchanged, bytes differ")
            for n in changed:
                if n not in reported:
                    add("report:missing-entry", "step %d:%s" % (i, n), "file changed but is not in the report")
            for line in printed.splitlines():
                parts = line.split("\t")
                if len(parts) == 2 and parts[0] in ("modified", "unchanged"):
                    n = os.path.basename(parts[1])
                    if (parts[0] == "modified") != (n in changed):
                        add("print:%s-but-%s" % (parts[0], "changed" if n in changed else "unchanged"), "step %d:%s" % (i, n), line)
            sig = (truth, tuple(given))
            if not dirty and last_sync_sig == sig:
                if changed:
                    add("not-idempotent", "step %d" % i, "a repeated sync changed %s" % sorted(changed))
                if any(reported.values()):
                    add("report:true-on-repeat", "step %d" % i, "a repeated sync reported %s" % sorted(k for k, v in reported.items() if v))
            for n, data in after.items():
                try:
                    ast.parse(data.decode())
                except SyntaxError as e:
                    add("unparsable", "step %d:%s" % (i, n), str(e))
            last_sync_sig, dirty = sig, False
    finally:
        shutil.rmtree(d, ignore_errors=True)
    return CaseResult(discs, tags, nontrivial, "%s: %s" % (" ".join(ops), "ok" if not discs else discs[0].aspect), evals=max(evals, 1))
