"""C09 sync makes every target agree with the declared truth."""
import os
import shutil
import sys
import tempfile

from hypothesis import strategies as st

from .. import domain, kinds, project
from ..oracle import compare_ir
from ..runner import CaseResult, Disc, raise_disc
from . import c04, c05

PID = "C09"
LEVEL = "exploration"
ALSO_FINDINGS_OF = ("C02", "C03", "C04", "C05")
RULE = (
    "cases = truth kind in {argparse_function, class, function} x generated interface description x for each other kind a "
    "pre-state in {missing file, empty file, definition absent, stale definition, agreeing definition, kind not given} "
    "(thorough: the full pre-state matrix per description) x function target top-level vs Class.method; sync through "
    "conformance.ground_truth with the Namespace __main__ builds (CLI runs are part of C20). Oracle: afterwards every given "
    "target file exists, parses, contains the named definition exactly once at the named location (reference resolver), and "
    "parse_k(definition) agrees with parse_truth(truth) under kind k's C02-C04 policy (hop-local judgement as in C05). "
    "distinct = canonical-JSON hash; non-trivial = at least one target stale or absent and a description with >=2 "
    "parameters and a default"
)
ASSUMPTIONS = ["descriptions are drawn from the argparse-expressible core so that every kind can carry them",
               "pre-states 'stale'/'agreeing' are written with the emitters and black, as sync itself would write them"]
CORE_ALLOWED = c05._CORE_ARGPARSE
# pre-state / configuration shapes of open findings (excluded from the core by construction)
FRONTIER_KNOBS = ("function_target_stale", "argparse_target_stale", "method_created", "truth_returns", "truth_returns_default", "class_truth_returns", "placeholder_function")
FLOORS = {"state=stale": 0.1, "state=agreeing": 0.2, "state=missing": 0.1, "state=empty": 0.1, "state=absent": 0.1, "method": 0.2, "two_kinds": 0.08}
KEYS = project.KIND_KEYS


def budgets(tier):
    if tier == "quick":
        return {"core": 640, "frontier": 64, "shards": 8}
    return {"core": 16 * 120, "frontier": 16 * 40, "shards": 16}


def mod():
    return sys.modules[__name__]


@st.composite
def _ir(draw, forced=None):
    ir = draw(domain.ir_strategy(allowed=CORE_ALLOWED, forced=forced, min_params=1, max_params=4, argparse_only=True, base_exclude=()))
    docd = [p for p in ir["params"] if "doc" in p and not p["name"].endswith("kwargs")]
    if docd and ir["params"][-1] is docd[-1] and draw(st.integers(0, 2)) == 0:
        # the last line of the generated class docstring (`    :cvar name: prose`) just below the width: the closing quotes
        # of the docstring then sit at the edge of what a formatter accepts on one line
        p = docd[-1]
        total = draw(st.integers(90, 100))
        need = total - 4 - len(":cvar %s: " % p["name"]) - len(p["doc"]) - 1
        words = []
        i = draw(st.integers(0, len(domain.WORDS) - 1))
        while need > 0:
            w = domain.WORDS[i % len(domain.WORDS)]
            i += 1
            if len(w) + 1 > need:
                w = "x" * need
            words.append(w)
            need -= len(w) + 1
        if words:
            p["doc"] = p["doc"].rstrip(".") + " " + " ".join(words)
    return ir


@st.composite
def _case(draw, knob):
    truth = draw(st.sampled_from(KEYS))
    if knob == "function_target_stale" and truth == "function":
        truth = "class"
    if knob == "argparse_target_stale" and truth == "argparse_function":
        truth = "class"
    if knob == "method_created" and truth == "function":
        truth = "argparse_function"
    if knob in ("truth_returns", "truth_returns_default") and truth == "class":
        truth = draw(st.sampled_from(("function", "argparse_function")))  # a class truth with a return entry: next knob
    if knob == "class_truth_returns":
        truth = "class"
    others = [k for k in KEYS if k != truth]
    method = draw(st.booleans())
    states = {}
    for k in others:
        # core: every pre-state except the two shapes of the open finding "a FunctionDef target is never replaced"
        opts = list(project.STATES) if k == "class" else [s_ for s_ in project.STATES if s_ != "stale"]
        states[k] = draw(st.sampled_from(opts))
    if method and states.get("function") in ("missing", "empty", "absent", "placeholder"):
        # core: a method target must already exist in its class (creating it is a shape of its own)
        states["function"] = "agreeing"
    if draw(st.integers(0, 4)) == 0:
        states[draw(st.sampled_from(others))] = None  # only two kinds given
    if knob == "function_target_stale":
        states["function"] = "stale"
    elif knob == "argparse_target_stale":
        states["argparse_function"] = "stale"
    elif knob == "method_created":
        method = True
        states["function"] = draw(st.sampled_from(("missing", "empty", "absent")))  # (no placeholder for a method)
    if knob == "placeholder_function":
        # the only other file given binds the function's name to something else: `f_target = None`
        fk = draw(st.sampled_from([k for k in others if k != "class"]))
        states = {k: ("placeholder" if k == fk else None) for k in others}
        method = False
    if all(v is None for v in states.values()):
        states[others[0]] = "agreeing"
    # the class target may be nested in another class (Outer.TargetClass); creating a nested class that does not exist yet
    # is the same shape as creating a method (finding KF-N03), so core: nested only when the class is already there
    nested = "class" in states and states["class"] in ("stale", "agreeing") and draw(st.booleans())
    # a truth that documents a return value (typed and with prose; with a default expression for the second knob)
    forced = {"truth_returns": "returns", "truth_returns_default": "returns_default", "class_truth_returns": "returns"}.get(knob)
    return {"ir": draw(_ir(forced)), "stale_ir": draw(_ir()), "truth": truth, "states": states, "method": method, "nested": nested,
            "cli": draw(st.booleans()),
            # a second file of the truth's kind, listed AFTER the truth file: it is a target like any other
            "mirror": truth == "class" and draw(st.booleans()) and knob != "placeholder_function"}


def strategy(mode, knob=None):
    return _case(knob if mode == "frontier" else None)


def valid(case):
    try:
        return (isinstance(case, dict) and set(case) - {"_not_stale", "nested", "cli", "mirror"} == {"ir", "stale_ir", "truth", "states", "method"}
                and isinstance(case.get("nested", False), bool) and not (case.get("nested") and case["truth"] == "class")
                and domain.valid_ir(case["ir"]) and domain.valid_ir(case["stale_ir"]) and case["truth"] in KEYS
                and set(case["states"]) == set(k for k in KEYS if k != case["truth"])
                and all(v in project.STATES + (None,) for v in case["states"].values())
                and any(v is not None for v in case["states"].values()) and isinstance(case["method"], bool))
    except Exception:
        return False


def case_tags(case):
    tags = {"truth=" + case["truth"], "method" if case["method"] else "toplevel"}
    if case.get("nested"):
        tags.add("nested_class")
    tags.add("entry=cli" if case.get("cli") else "entry=api")
    given = [k for k, v in case["states"].items() if v is not None]
    tags.add("given=%d" % (len(given) + 1))
    if len(given) == 1:
        tags.add("two_kinds")
    for k, v in case["states"].items():
        tags.add("state:%s=%s" % (k, v))
        if v is not None:
            tags.add("state=" + v)
    if case["states"].get("function") == "stale":
        tags.add("function_target_stale")
    if case["states"].get("argparse_function") == "stale":
        tags.add("argparse_target_stale")
    if case["method"] and case["states"].get("function") in ("missing", "empty", "absent"):
        tags.add("method_created")
    if any(case["states"].get(k) == "placeholder" for k in ("function", "argparse_function")):
        tags.add("placeholder_function")
    if case["ir"].get("returns"):
        tags.add("truth_has_returns")
    return tags


def setup_project(case, d):
    """Writes truth + pre-states; returns (paths, gold factory)."""
    truth, method = case["truth"], case["method"]
    paths = {k: os.path.join(d, "%s_mod.py" % k) for k in KEYS}
    project.write_state(paths[truth], truth, "agreeing", lambda: domain.to_ir(case["ir"]), None, method)
    with open(paths[truth]) as f:
        truth_src = project.handwritten(f.read(), truth, method)
    with open(paths[truth], "w") as f:
        f.write(truth_src)

    def gold():
        defs, _ = project.find_defs(truth_src, truth, method)
        return project.parse_def(truth, defs[0])

    for k, state in case["states"].items():
        if state is None:
            continue
        project.write_state(paths[k], k, state, gold, lambda: domain.to_ir(case["stale_ir"]), method, nested=case.get("nested", False))
        if state == "stale":
            # a "stale" definition that happens to equal the agreeing one is not stale
            with open(paths[k]) as f:
                stale_src = f.read()
            project.write_state(paths[k] + ".agree", k, "agreeing", gold, None, method, nested=case.get("nested", False))
            with open(paths[k] + ".agree") as f:
                same = f.read() == stale_src
            os.remove(paths[k] + ".agree")
            if same:
                case["_not_stale"] = case.get("_not_stale", ()) + (k,)
    return paths, gold, truth_src


def judge_target(k, path, gold_case, method, tags, discs, pre=None, state=None, nested=False):
    if state == "stale" and pre is not None and os.path.isfile(path):
        with open(path, "rb") as f:
            if f.read() == pre:
                # one root-cause discrepancy instead of a cascade of field differences
                discs.append(Disc("target:not-updated:%s" % k, k, "the stale definition was left byte-identical", (), tags))
                return
    if not os.path.isfile(path):
        discs.append(Disc("target:missing-file", k, "file does not exist after sync", (), tags))
        return
    with open(path) as f:
        src = f.read()
    try:
        defs, tree = project.find_defs(src, k, method, nested)
    except SyntaxError as e:
        discs.append(Disc("target:unparsable", k, "%s: %r" % (e, src[:200]), (), tags))
        return
    if len(defs) != 1:
        discs.append(Disc("target:definition-count:%d" % min(len(defs), 2), k,
                          "expected exactly one %s, file has %d: %r" % (project.target_name(k, method, nested), len(defs), src[:300]), (), tags))
        if not defs:
            return
    kind = project.K2KIND[k]
    try:
        got = project.parse_def(k, defs[0])
    except Exception as e:
        d = raise_disc(e, "parse-target")
        discs.append(Disc(d.aspect, k, d.detail, (), tags))
        return
    opts = kinds.default_opts("method" if (k == "function" and method) else kind)
    htags, per = c05.hop_tags(kind, gold_case, opts)
    ctx = set(htags) | set(tags)
    owner = (c05.OWNER[kind], "C05", PID)
    for dd in compare_ir(c05.entry_view(gold_case), got, c05.hop_policy(kind), per):
        discs.append(Disc("agree:" + dd.aspect if False else dd.aspect, "%s:%s" % (k, dd.where), dd.detail, dd.ptags, ctx, owner))


def run_case(case):
    case = dict(case)
    tags = case_tags(case)
    cir = case["ir"]
    nontrivial = any(v in ("stale", "absent") for v in case["states"].values()) and len(cir["params"]) >= 2 and any(
        "default" in p for p in cir["params"])
    d = tempfile.mkdtemp(prefix="c09_")
    discs = []
    try:
        try:
            paths, gold, truth_src = setup_project(case, d)
            gold_case = kinds.ir_to_case(gold())
        except Exception:
            return CaseResult([], tags | {"setup_failed"}, False, "the truth could not be emitted/parsed (judged by C02-C04)", evals=0)
        given = [case["truth"]] + [k for k, v in case["states"].items() if v is not None]
        extra = {}
        if case.get("mirror"):
            mpath = os.path.join(d, "class_mirror.py")
            project.write_state(mpath, "class", "stale", None, lambda: domain.to_ir(case["stale_ir"]), False)
            extra = {"class": [mpath]}
            tags.add("mirror")
        pre = project.snapshot(d)
        try:
            project.run_sync(paths, case["truth"], case["method"], given, nested=case.get("nested", False), cli=case.get("cli", False),
                             extra=extra)
        except BaseException as e:
            if isinstance(e, KeyboardInterrupt):
                raise
            dd = raise_disc(e, "sync") if isinstance(e, Exception) else Disc("raise:sync:SystemExit", "sync", str(e))
            discs.append(Disc(dd.aspect, "sync", dd.detail, (), tags))
        if extra:
            judge_target("class", extra["class"][0], gold_case, False, tags, discs)
            with open(paths[case["truth"]]) as f:
                if f.read() != truth_src:
                    discs.append(Disc("truth-modified", case["truth"], "the file named first for the truth's kind was rewritten", (), tags))
        for k, v in case["states"].items():
            if v is None:
                continue
            judge_target(k, paths[k], gold_case, case["method"], tags, discs, pre.get(os.path.basename(paths[k])),
                         "agreeing" if k in case.get("_not_stale", ()) else v, nested=case.get("nested", False))
    finally:
        shutil.rmtree(d, ignore_errors=True)
    return CaseResult(discs, tags, nontrivial, "truth=%s states=%s: %s" % (case["truth"], case["states"], "ok" if not discs else discs[0].aspect))
