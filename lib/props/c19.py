"""C19 gen writes one well-formed, correctly named definition per mapping entry."""
import ast
import contextlib
import importlib
import inspect
import io
import os
import shutil
import sys
import tempfile

from hypothesis import strategies as st

from .. import domain
from ..runner import CaseResult, Disc, raise_disc

PID = "C19"
LEVEL = "exploration"
RULE = (
    "cases = generated input module written to a temporary importable package (1..4 classes with __init__ and/or functions, "
    "annotated or not, 0..3 import lines; mapping as dict or as a tuple of pairs, keys equal to or different from the "
    "objects' names) x output type in {class, function, argparse} x name template x prepend in {none, a constant, an "
    "import} x imports-from-file in {none, the input file} x entry point {gen(...), main(['gen', ...])}. Oracle: the output "
    "parses; the generated definitions are exactly [template.format(name=key) for key in mapping] in mapping order and of the "
    "requested node type; __all__ is the last statement and lists exactly those names; prepended text comes first; every "
    "import line of the named file appears exactly once and before the first definition; each definition's parameter names "
    "equal inspect.signature of its source object (minus self); an existing output file makes the command fail and stay "
    "byte-identical. distinct = canonical-JSON hash; non-trivial = mapping with >=2 entries of mixed kinds and >=2 import lines"
)
ASSUMPTIONS = ["objects are imported from a temporary package, as gen does for a real project",
               "docstrings document every parameter in signature order (partial documentation is C07's business)"]
CORE_ALLOWED = ()
FRONTIER_KNOBS = ()
FLOORS = {"type=class": 0.15, "type=function": 0.15, "type=argparse": 0.15, "imports": 0.3, "alias": 0.15}
IMPORTS = ("import os", "import sys", "from typing import Optional", "from collections import OrderedDict", "import json")
TYPES = ("int", "str", "float", "bool", "Optional[int]")
DEFAULTS = {"int": ("5", "-3"), "str": ("'mnist'", "'x'"), "float": ("0.5",), "bool": ("True", "False"), "Optional[int]": ("None", "3")}
_counter = [0]


def budgets(tier):
    if tier == "quick":
        return {"core": 1000, "frontier": 0, "shards": 4}
    return {"core": 16 * 300, "frontier": 16 * 40, "shards": 16}


def mod():
    return sys.modules[__name__]


@st.composite
def _obj(draw, name, knob):
    kind = draw(st.sampled_from(("class", "function")))
    n = draw(st.integers(1, 4))
    pnames = draw(st.lists(st.sampled_from(domain.NAMES), min_size=n, max_size=n, unique=True))
    k_def = draw(st.integers(0, n))
    params = []
    for i, pn in enumerate(pnames):
        t = draw(st.sampled_from(TYPES))
        params.append({"name": pn, "typ": t, "default": draw(st.sampled_from(DEFAULTS[t])) if i >= n - k_def else None,
                       "prose": "about %s %s" % (pn, draw(st.sampled_from(domain.WORDS)))})
    return {"kind": kind, "name": name, "params": params, "annotate": draw(st.booleans()),
            "summary": "Summary of %s %s" % (name, draw(st.sampled_from(domain.WORDS))),
            "ret": (kind == "function" and draw(st.booleans()))}


@st.composite
def _case(draw, knob):
    n = draw(st.integers(1, 4))
    names = draw(st.lists(st.sampled_from(("Alpha", "Beta", "Gamma", "delta", "epsilon", "zeta", "Eta")), min_size=n, max_size=n, unique=True))
    objs = [draw(_obj(nm, knob)) for nm in names]
    keys = []
    for nm in names:
        keys.append(nm if draw(st.integers(0, 3)) else "K" + nm)  # alias: the mapping key differs from the object's __name__
    return {
        "objs": objs, "keys": keys, "as_dict": draw(st.booleans()),
        # the typing import is always there (annotations use Optional); 0..2 further import lines
        "imports": ["from typing import Optional"] + draw(st.lists(st.sampled_from([i for i in IMPORTS if "typing" not in i]), min_size=0, max_size=2, unique=True)),
        "type": draw(st.sampled_from(("class", "function", "argparse"))),
        "tpl": draw(st.sampled_from(("{name}Config", "{name}", "Gen_{name}"))),
        "prepend": draw(st.sampled_from((None, "PREPENDED = 1\n", "import math\n"))),
        "imports_from_file": draw(st.booleans()),
        "cli": draw(st.booleans()),
        "emit_call": draw(st.booleans()),
        "preexisting": draw(st.integers(0, 5)) == 0,
    }


def strategy(mode, knob=None):
    return _case(knob if mode == "frontier" else None)


def render_input(case):
    lines = list(case["imports"]) + [""]
    for o in case["objs"]:
        sig = ", ".join((p["name"] + (": " + p["typ"] if o["annotate"] else "") + ((" = " if o["annotate"] else "=") + p["default"] if p["default"] is not None else ""))
                        for p in o["params"])
        doc = [o["summary"], ""] + sum(([":param %s: %s" % (p["name"], p["prose"]), ""] for p in o["params"]), [])
        if o["kind"] == "class":
            lines += ["class %s(object):" % o["name"], '    """'] + ["    " + l if l else "" for l in doc] + ['    """', ""]
            lines += ["    def __init__(self, %s):" % sig, "        self.value = 1", ""]
        else:
            lines += ["def %s(%s):" % (o["name"], sig), '    """'] + ["    " + l if l else "" for l in doc] + ['    """']
            lines += ["    return %s" % o["params"][0]["name"] if o["ret"] else "    pass", ""]
    pairs = ", ".join("(%r, %s)" % (k, o["name"]) for k, o in zip(case["keys"], case["objs"]))
    if case["as_dict"]:
        lines.append("MAPPING = {%s}" % ", ".join("%r: %s" % (k, o["name"]) for k, o in zip(case["keys"], case["objs"])))
    else:
        lines.append("MAPPING = (%s,)" % pairs)
    return "\n".join(lines) + "\n"


def valid(case):
    try:
        if not isinstance(case, dict) or not case.get("objs") or len(case["objs"]) != len(case["keys"]):
            return False
        if len(set(case["keys"])) != len(case["keys"]) or case["type"] not in ("class", "function", "argparse"):
            return False
        ast.parse(render_input(case))
        return all(len({p["name"] for p in o["params"]}) == len(o["params"]) and o["params"] for o in case["objs"])
    except Exception:
        return False


def run_case(case):
    tags = {"type=" + case["type"], "tpl=" + case["tpl"], "cli=%s" % case["cli"], "n=%d" % len(case["objs"])}
    if case["imports"] and case["imports_from_file"]:
        tags.add("imports")
    if any(k != o["name"] for k, o in zip(case["keys"], case["objs"])):
        tags.add("alias")
    if case["prepend"]:
        tags.add("prepend")
    if any(o["ret"] for o in case["objs"]):
        tags.add("return_in_body")
    if case["emit_call"]:
        tags.add("emit_call")
    if case["preexisting"]:
        tags.add("preexisting")
    kinds_ = {o["kind"] for o in case["objs"]}
    nontrivial = len(case["objs"]) >= 2 and len(kinds_) == 2 and len(case["imports"]) >= 2 and case["imports_from_file"]
    _counter[0] += 1
    pkg = "c19pkg_%d_%d" % (os.getpid(), _counter[0])
    d = tempfile.mkdtemp(prefix="c19_")
    discs = []
    try:
        with open(os.path.join(d, pkg + ".py"), "w") as f:
            f.write(render_input(case))
        out = os.path.join(d, "generated.py")
        sys.path.insert(0, d)
        importlib.invalidate_caches()
        pre = b"# precious\nX = 1\n"
        if case["preexisting"]:
            with open(out, "wb") as f:
                f.write(pre)
        raised = None
        try:
            with contextlib.redirect_stdout(io.StringIO()), contextlib.redirect_stderr(io.StringIO()):
                if case["cli"] or case["preexisting"]:
                    from doctrans.__main__ import main

                    argv = ["gen", "--name-tpl", case["tpl"], "--input-mapping", pkg + ".MAPPING", "--type", case["type"], "-o", out]
                    if case["prepend"]:
                        argv += ["--prepend", case["prepend"].replace("\n", "\\n")]
                    if case["imports_from_file"]:
                        argv += ["--imports-from-file", pkg]
                    if case["emit_call"]:
                        argv += ["--emit-call"]
                    main(argv)
                else:
                    from doctrans.gen import gen

                    gen(name_tpl=case["tpl"], input_mapping=pkg + ".MAPPING", type_=case["type"], output_filename=out,
                        prepend=case["prepend"], imports_from_file=pkg if case["imports_from_file"] else None,
                        emit_call=case["emit_call"])
        except BaseException as e:
            if isinstance(e, KeyboardInterrupt):
                raise
            raised = e
        if case["preexisting"]:
            if raised is None:
                discs.append(Disc("existing-output:no-error", "gen", "the output file existed, yet gen did not fail"))
            with open(out, "rb") as f:
                if f.read() != pre:
                    discs.append(Disc("existing-output:modified", "gen", "the existing output file was changed"))
            return CaseResult(discs, tags, nontrivial, "pre-existing output: %s" % (type(raised).__name__ if raised else "no error"))
        if raised is not None:
            discs.append(raise_disc(raised, "gen") if isinstance(raised, Exception) else Disc("raise:gen:SystemExit", "gen", str(raised)))
            return CaseResult(discs, tags, nontrivial, "gen raised %s" % type(raised).__name__)
        with open(out) as f:
            text = f.read()
        try:
            tree = ast.parse(text)
        except SyntaxError as e:
            discs.append(Disc("output-unparsable", "output", "%s: %r" % (e, text[:300])))
            return CaseResult(discs, tags, nontrivial, "output does not parse")
        want_names = [case["tpl"].format(name=k) for k in case["keys"]]
        want_type = ast.ClassDef if case["type"] == "class" else ast.FunctionDef
        defs = [n for n in tree.body if isinstance(n, (ast.ClassDef, ast.FunctionDef))]
        if [n.name for n in defs] != want_names:
            discs.append(Disc("definitions:names", "output", "expected %r got %r" % (want_names, [n.name for n in defs])))
        if any(not isinstance(n, want_type) for n in defs):
            discs.append(Disc("definitions:node-type", "output", "expected %s, got %r" % (want_type.__name__, [type(n).__name__ for n in defs])))
        last = tree.body[-1] if tree.body else None
        if not (isinstance(last, ast.Assign) and len(last.targets) == 1 and getattr(last.targets[0], "id", None) == "__all__"):
            discs.append(Disc("all:not-last", "output", "last statement is %r" % (ast.unparse(last)[:80] if last else None)))
        else:
            try:
                got_all = ast.literal_eval(last.value)
            except Exception:
                got_all = None
            if list(got_all or []) != want_names:
                discs.append(Disc("all:names", "output", "expected %r got %r" % (want_names, got_all)))
        first_def = next((i for i, n in enumerate(tree.body) if isinstance(n, (ast.ClassDef, ast.FunctionDef))), len(tree.body))
        if case["prepend"]:
            want_first = ast.dump(ast.parse(case["prepend"]).body[0])
            pos = [i for i, n in enumerate(tree.body) if ast.dump(n) == want_first]
            if len(pos) != 1:
                discs.append(Disc("prepend:count", "output", "prepended statement occurs %d times" % len(pos)))
            elif pos[0] > first_def:
                discs.append(Disc("prepend:after-definition", "output", "prepended statement at %d, first definition at %d" % (pos[0], first_def)))
        if case["imports_from_file"]:
            for imp in case["imports"]:
                w = ast.dump(ast.parse(imp).body[0])
                pos = [i for i, n in enumerate(tree.body) if ast.dump(n) == w]
                if len(pos) != 1:
                    discs.append(Disc("imports:count", imp, "import occurs %d times" % len(pos)))
                elif pos[0] > first_def:
                    discs.append(Disc("imports:after-definition", imp, "import at %d, first definition at %d" % (pos[0], first_def)))
        # interface fidelity: parameter names of each definition == inspect.signature of its source object
        m = importlib.import_module(pkg)
        for node, o in zip(defs, case["objs"]):
            src_obj = getattr(m, o["name"])
            sig = inspect.signature(src_obj.__init__ if inspect.isclass(src_obj) else src_obj)
            want = [n for n in sig.parameters if n != "self"]
            if isinstance(node, ast.ClassDef):
                got = [s.target.id for s in node.body if isinstance(s, ast.AnnAssign) and s.target.id != "return_type"]
            elif case["type"] == "argparse":
                got = [s.value.args[0].value[2:] for s in node.body if isinstance(s, ast.Expr) and isinstance(s.value, ast.Call)
                       and getattr(s.value.func, "attr", None) == "add_argument"]
            else:
                got = [a.arg for a in node.args.args + node.args.kwonlyargs if a.arg not in ("self", "cls")]
            if got != want:
                discs.append(Disc("interface:names", node.name, "source object has %r, generated definition has %r" % (want, got)))
    finally:
        if d in sys.path:
            sys.path.remove(d)
        sys.modules.pop(pkg, None)
        shutil.rmtree(d, ignore_errors=True)
    return CaseResult(discs, tags, nontrivial, "%s x%d: %s" % (case["type"], len(case["objs"]), "ok" if not discs else discs[0].aspect))
