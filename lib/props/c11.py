"""C11 sync preserves everything it was not asked to change."""
import ast
import os
import shutil
import sys
import tempfile

from hypothesis import strategies as st

from .. import domain, progs, project
from ..oracle import ws
from ..runner import CaseResult, Disc, raise_disc
from . import c09

PID = "C11"
LEVEL = "exploration"
RULE = (
    "cases = generated target module: the named definition (class / function / method / argparse function; stale, agreeing "
    "or absent) placed before / between / after generated statements (imports, constants, helper functions, classes with "
    "methods and nested classes, decoys that share the target's simple name inside other scopes), with and without a "
    "trailing newline and a module docstring; truth = a generated description emitted as another kind. Oracle (reference "
    "resolver, not doctrans): the file parses; the named definition occurs exactly once at its location; with the named "
    "definition removed, the remaining top-level statements - and for a method target the remaining members of its class - "
    "are pairwise identical syntax trees in the original order. distinct = canonical-JSON hash; non-trivial = >=3 other "
    "statements, >=1 of them sharing a simple name with the target"
)
ASSUMPTIONS = ["a class target is replaced as a whole (reading 5); siblings are protected for method targets and at module level",
               "trees are compared through unparse/parse (positions and formatting are not content)"]
CORE_ALLOWED = c09.CORE_ALLOWED
FRONTIER_KNOBS = ("module_doc", "rebound_functiondef")
FLOORS = {"decoy": 0.2, "state=stale": 0.2, "state=absent": 0.15, "no_trailing_newline": 0.2}
KEYS = project.KIND_KEYS


def budgets(tier):
    if tier == "quick":
        return {"core": 1200, "frontier": 120, "shards": 8}
    return {"core": 16 * 600, "frontier": 16 * 100, "shards": 16}


def mod():
    return sys.modules[__name__]


DECOYS = (
    {"k": "class", "name": "Decoy", "body": [
        {"k": "def", "name": "f_target", "first": "self", "args": [{"name": "a", "typ": None, "default": None}], "kwonly": [], "kwarg": None, "ret": "return a"},
        {"k": "class", "name": "TargetClass", "body": [{"k": "ann", "name": "a", "typ": "int", "value": "1"}]},
        {"k": "def", "name": "set_args", "first": "self", "args": [{"name": "argument_parser", "typ": None, "default": None}], "kwonly": [], "kwarg": None, "ret": "return argument_parser"},
    ]},
    {"k": "def", "name": "wrapper", "first": None, "args": [{"name": "f_target", "typ": None, "default": None}, {"name": "TargetClass", "typ": None, "default": "None"}], "kwonly": [], "kwarg": None, "ret": "return f_target"},
)


@st.composite
def _case(draw, knob):
    target = draw(st.sampled_from(KEYS if knob != "rebound_functiondef" else ("function", "argparse_function")))
    truth = draw(st.sampled_from([k for k in KEYS if k != target]))
    method = target == "function" and knob != "rebound_functiondef" and draw(st.booleans())
    m = draw(progs.module(min_size=1, max_size=5, rebind=False))
    m["doc"] = "Module docstring." if knob == "module_doc" else None
    if draw(st.integers(0, 2)) == 0:
        m["body"].insert(draw(st.integers(0, len(m["body"]))), draw(st.sampled_from(DECOYS)))
    state = draw(st.sampled_from(("stale", "agreeing", "absent")))
    if method and state == "absent":
        state = "stale"  # creating a method that does not exist is finding KF-N03 (C09), not this property's core
    trailing = draw(st.booleans())
    m["trailing_newline"] = trailing
    if not trailing and draw(st.integers(0, 2)) == 0:
        m["trailing_ws"] = draw(st.sampled_from(("    ", "\t", " ")))
    if draw(st.integers(0, 3)) == 0:
        # the target's NAME as a string literal, before or after the definition: an export list, a registry
        nm = project.NAMES[target].split(".")[-1]
        m["body"].insert(draw(st.integers(0, len(m["body"]))), {"k": "raw", "src": draw(st.sampled_from((
            "__all__ = [%r, 'helper']" % nm, "REGISTRY = {%r: None}" % nm, "EXPORTED = (%r,)" % nm)))})
    if draw(st.integers(0, 3)) == 0:
        # assignments whose target is not a bare name
        m["body"].insert(draw(st.integers(0, len(m["body"]))), {"k": "raw", "src": draw(st.sampled_from((
            "import os\nos.environ['DOCTRANS_X'] = '3'", "MAJOR, MINOR = 1, 2", "TABLE = {}\nTABLE['k'] = 1")))})
    if draw(st.integers(0, 4)) == 0:
        # a bystander with positional-only parameters (and one with every other kind of parameter)
        m["body"].insert(draw(st.integers(0, len(m["body"]))), {"k": "raw", "src": draw(st.sampled_from((
            "def clamp(value, low=0, /, high=10):\n    return max(low, min(value, high))",
            "def mix(a, /, b, *rest, c=1, **extra):\n    return (a, b, rest, c, extra)",
            "async def fetch(url, /, *, timeout=3):\n    return url")))})
    if draw(st.integers(0, 3)) == 0:
        # an import whose imported (not bound) name is spelt like the target: `from legacy import TargetClass as _Legacy`
        nm = project.NAMES[target].split(".")[-1]
        m["body"].insert(draw(st.integers(0, len(m["body"]))), {"k": "import", "src": draw(st.sampled_from((
            "from legacy import %s as _Legacy" % nm, "import %s as _legacy_mod" % nm, "from legacy import other, %s as _L2" % nm)))})
    pos = draw(st.integers(0, len(m["body"])))
    if not method and state != "absent" and (knob == "rebound_functiondef" or (target == "class" and draw(st.integers(0, 2)) == 0)):
        # a second binding of the target's name after the definition: `TargetClass = register(TargetClass)`
        nm = project.NAMES[target]
        m["body"].insert(draw(st.integers(pos, len(m["body"]))), {"k": "assign", "name": nm, "value": "register(%s)" % nm})
    return {"ir": draw(c09._ir()), "stale_ir": draw(c09._ir()), "truth": truth, "target": target, "method": method, "module": m,
            "pos": pos, "state": state}


def strategy(mode, knob=None):
    return _case(knob if mode == "frontier" else None)


def valid(case):
    try:
        return (isinstance(case, dict) and set(case) == {"ir", "stale_ir", "truth", "target", "method", "module", "pos", "state"}
                and domain.valid_ir(case["ir"]) and domain.valid_ir(case["stale_ir"]) and case["truth"] in KEYS and case["target"] in KEYS
                and case["truth"] != case["target"] and progs.valid_module(case["module"]) and case["state"] in ("stale", "agreeing", "absent")
                and isinstance(case["pos"], int) and 0 <= case["pos"] <= len(case["module"]["body"])
                and not (case["method"] and case["target"] != "function"))
    except Exception:
        return False


def _others(tree, k, method):
    """(top-level statements without the named definition, members of the holder class without it)."""
    name = project.NAMES[k]
    want = ast.ClassDef if k == "class" else ast.FunctionDef
    if k == "function" and method:
        top = list(tree.body)
        holder = next((n for n in top if isinstance(n, ast.ClassDef) and n.name == project.HOLDER), None)
        members = [n for n in holder.body if not (isinstance(n, want) and n.name == name)] if holder else None
        top = [n for n in top if n is not holder]
        return top, members
    return [n for n in tree.body if not (isinstance(n, want) and n.name == name)], None


def _dump(n):
    return ast.dump(ast.parse(ast.unparse(n)))


def run_case(case):
    from doctrans.source_transformer import to_code

    k, truth, method = case["target"], case["truth"], case["method"]
    tags = {"target=" + k, "truth=" + truth, "state=" + case["state"], "method" if method else "toplevel"}
    m = case["module"]
    if not m.get("trailing_newline", True):
        tags.add("no_trailing_newline")
        if case["state"] == "absent":
            tags.add("append_no_newline")
    if m.get("trailing_ws"):
        tags.add("trailing_ws")
    if any(s_.get("k") == "import" and " as _L" in s_.get("src", "") or " as _legacy_mod" in s_.get("src", "") for s_ in m["body"]):
        tags.add("import_alias_decoy")
    if m.get("doc"):
        tags.add("module_doc")
    names = [n for p, _ in progs.model_locations(ast.parse(progs.render(m))) for n in p[-1:]]
    decoy = any(n in names for n in project.NAMES.values())
    if decoy:
        tags.add("decoy")
    if any(s_.get("k") == "assign" and s_.get("value", "").startswith("register(") for s_ in m["body"]):
        tags.add("rebound")
        if k != "class":
            tags.add("rebound_functiondef")
    nontrivial = len(m["body"]) >= 3 and decoy
    d = tempfile.mkdtemp(prefix="c11_")
    discs = []
    try:
        paths = {kk: os.path.join(d, "%s_mod.py" % kk) for kk in KEYS}
        try:
            project.write_state(paths[truth], truth, "agreeing", lambda: domain.to_ir(case["ir"]), None, False)
            with open(paths[truth]) as f:
                tsrc = project.handwritten(f.read(), truth, False)
            with open(paths[truth], "w") as f:
                f.write(tsrc)
            gold = lambda: project.parse_def(truth, project.find_defs(tsrc, truth, False)[0][0])
            body = [dict(s_) for s_ in m["body"]]
            if case["state"] != "absent":
                ir = gold() if case["state"] == "agreeing" else domain.to_ir(case["stale_ir"])
                dsrc = to_code(project.emit_def(k, ir, method)).rstrip("\n")
                if method:
                    holder = {"k": "class", "name": project.HOLDER, "body": [
                        {"k": "assign", "name": "marker_attr", "value": "1"},
                        {"k": "def", "name": "before_m", "first": "self", "args": [{"name": "a", "typ": None, "default": None}], "kwonly": [], "kwarg": None, "ret": "return a"},
                        {"k": "raw", "src": dsrc},
                        {"k": "def", "name": "after_m", "first": "self", "args": [], "kwonly": [], "kwarg": None, "ret": "pass"}]}
                    body.insert(case["pos"], holder)
                else:
                    body.insert(case["pos"], {"k": "raw", "src": dsrc})
            elif method:
                return CaseResult([], tags | {"skipped"}, False, "method+absent is not generated", evals=0)
            src = progs.render(dict(m, body=body))
            ast.parse(src)
        except Exception:
            return CaseResult([], tags | {"setup_failed"}, False, "project could not be built (emitters judged elsewhere)", evals=0)
        if case["state"] == "stale" and _dump(ast.parse(src)) == _dump(ast.parse(progs.render(dict(m, body=body)))) and False:
            pass
        with open(paths[k], "w") as f:
            f.write(src)
        before_tree = ast.parse(src)
        try:
            project.run_sync(paths, truth, method, [truth, k])
        except BaseException as e:
            if isinstance(e, KeyboardInterrupt):
                raise
            discs.append(raise_disc(e, "sync") if isinstance(e, Exception) else Disc("raise:sync:SystemExit", "sync", str(e)))
        with open(paths[k]) as f:
            after = f.read()
        if after == src:
            tags.add("file_unchanged")
        else:
            tags.add("file_rewritten")
        try:
            after_tree = ast.parse(after)
        except SyntaxError as e:
            discs.append(Disc("unparsable", k, "%s: %r" % (e, after[-200:])))
            return CaseResult(discs, tags, nontrivial, "target file no longer parses")
        defs, _ = project.find_defs(after, k, method)
        if len(defs) != 1:
            discs.append(Disc("definition-count:%d" % min(len(defs), 2), k, "named definition occurs %d times" % len(defs)))
        bt, bm = _others(before_tree, k, method)
        at, am = _others(after_tree, k, method)
        b_doc = ast.get_docstring(before_tree, clean=False)
        if b_doc is not None and (ast.get_docstring(after_tree, clean=False) != b_doc):
            discs.append(Disc("module-docstring-changed", "module", "%r -> %r" % (b_doc, ast.get_docstring(after_tree, clean=False))))
            # compare the rest without the docstring statement
            bt, at = bt[1:], at[1:]
        if [_dump(n) for n in bt] != [_dump(n) for n in at]:
            discs.append(Disc("toplevel-changed", "module", "before %r after %r" % ([ast.unparse(n)[:40] for n in bt], [ast.unparse(n)[:40] for n in at])))
        if bm is not None and (am is None or [_dump(n) for n in bm] != [_dump(n) for n in am]):
            discs.append(Disc("siblings-changed", project.HOLDER, "before %r after %r" % ([ast.unparse(n)[:40] for n in bm], None if am is None else [ast.unparse(n)[:40] for n in am])))
    finally:
        shutil.rmtree(d, ignore_errors=True)
    return CaseResult(discs, tags, nontrivial, "target=%s state=%s: %s" % (k, case["state"], "ok" if not discs else discs[0].aspect))
