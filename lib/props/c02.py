"""C02 Config-class round-trip fidelity."""
import sys

from hypothesis import strategies as st

from .. import domain, irprops, kinds
from ..oracle import Policy, zero_or_none_ok
from ..runner import Disc

PID = "C02"
LEVEL = "exploration"
RULE = (
    "cases = generated interface description x emit_default_doc x word_wrap; oracle = parse.class_(ast.parse(to_code("
    "emit.class_(ir)))) compared with ir: names/order, types, prose, explicit defaults (value and Python type), return "
    "entry (must come back as the return entry, never as a parameter called return_type). Only permitted change: a "
    "parameter (or the return entry) without default may acquire the zero value of its type or None. "
    "distinct = canonical-JSON hash; non-trivial = >=2 parameters with >=2 different type constructors and >=1 explicit default"
)
ASSUMPTIONS = ["the class is parsed from its unparsed *text* (what a user has), not from the emitted node",
               "prose kept below the wrap width (wrapping is C18)"]
CORE_ALLOWED = ("optional_zero", "str_with_squote", "kwargs_param", "multiline_summary", "float_default", "negative_int", "zero_int", "bool_false", "none_default",
                "prose_trailing_stop", "required_bool", "no_params", "str_with_space", "default_words", "prose_punct", "optional_prose", "union_with_str", "str_with_dot", "kwargs_sole_default")
FRONTIER_KNOBS = irprops.frontier_knobs((
    "untyped_param", "undocumented_param", "default_without_prose", "bare_param", "empty_str",
    "str_with_quote", "code_default", "code_default_dot", "int_under_nonscalar_type",
    "nodefault_after_default", "returns", "returns_default", "returns_default_plain", "returns_untyped", "returns_undocumented", "returns_only",
    "multiline_prose", "foreign_tokens",
))
FLOORS = {"has_default": 0.3}
KIND = "class"


def budgets(tier):
    if tier == "quick":
        return {"core": 1000, "frontier": 90, "shards": 1}
    return {"core": 16 * 6000, "frontier": 16 * 250, "shards": 16}


def mod():
    return sys.modules[__name__]


def strategy(mode, knob=None):
    return st.builds(lambda c, o: {"ir": c["ir"], "opts": o},
                     irprops.ir_case_strategy(mod(), mode, knob, st.just({})), kinds.opts_strategy(KIND))


def valid(case):
    return irprops.valid_rt_case(case, KIND)


# parse.class_ strips the 'Defaults to' sentence from the prose: one that is still there was not recognised
POLICY = Policy(absent_default_ok=zero_or_none_ok, ret_absent_default_ok=zero_or_none_ok, sentence="removed", summary="lines")


def _extra(cir, got, text, discs, per, opts):
    if "return_type" in (got.get("params") or {}):
        discs.append(Disc("ret:as-parameter", "return_type", "return entry came back as a parameter"))


def run_case(case):
    cir = case["ir"]
    tcs = {(p.get("typ") or "").split("[")[0] for p in cir["params"]}
    nontrivial = len(cir["params"]) >= 2 and len(tcs) >= 2 and any(p.get("default") is not None for p in cir["params"])
    return irprops.roundtrip(case, KIND, POLICY, nontrivial, _extra)
