"""C18 Word-wrapping and line-length configuration are semantically transparent."""
import json
import os
import re
import shutil
import subprocess
import sys
import tempfile
from concurrent.futures import ThreadPoolExecutor

from hypothesis import strategies as st

from .. import domain, env, kinds
from ..oracle import Policy, compare_ir
from ..runner import CaseResult, Disc, case_hash
from . import c05

PID = "C18"
LEVEL = "exploration"
RULE = (
    "cases = a batch of generated interface descriptions whose summaries, prose and type strings are shorter than, about "
    "equal to and much longer than the width x DOCTRANS_LINE_LENGTH in a sweep (quick: unset,40,41,60,79,80,100,119,120,200; "
    "thorough: 40..200 in steps) x word_wrap on/off x the seven kinds; one child process per width (the width is read at "
    "import). Oracle: every emitter returns for every width; parse(emit(ir, wrap=on)) equals parse(emit(ir, wrap=off)) with "
    "prose compared modulo whitespace and types modulo whitespace, everything else exactly (names, order, defaults, return "
    "entry) - distinct prose per parameter makes merging / re-attribution visible. evaluations = (description, kind, width) "
    "triples; distinct = their hashes; non-trivial = a triple where some prose AND some type string is longer than the width"
)
ASSUMPTIONS = ["the unwrapped artefact is the reference for what the wrapped one must mean", "default emitter options otherwise"]
CORE_ALLOWED = c05._CORE_GENERAL
FRONTIER_KNOBS = ()
FLOORS = {}
_CFG = {"irs": 10, "widths": ["unset", 40, 41, 60, 79, 80, 100, 119, 120, 200], "tidy": False}


def budgets(tier):
    if tier == "quick":
        return {"core": 6, "frontier": 0, "shards": 1, "irs": 10, "widths": ["unset", 40, 41, 60, 79, 80, 100, 119, 120, 200]}
    return {"core": 48, "frontier": 0, "shards": 4, "irs": 10, "widths": "sweep"}


def configure(tier, b):
    _CFG.update(irs=b["irs"], widths=b["widths"])


def mod():
    return sys.modules[__name__]


@st.composite
def _ir(draw):
    # wrapped and unwrapped artefacts of the SAME description are compared, so every shape is fair game
    if _CFG.get("tidy"):
        # boundary phase: descriptions without any finding shape, so that "nothing may change at the width that fits
        # exactly" is judged strictly in every style
        ir = draw(domain.ir_strategy(allowed=tuple(CORE_ALLOWED), min_params=1, max_params=4))
    else:
        ir = draw(domain.ir_strategy(allowed=tuple(domain.MUTATORS), min_params=1, max_params=4,
                                     forced=draw(st.sampled_from((None, "str_with_space", "str_with_space", "returns_default", "code_default", "spaced_literal")))))
    for i, p in enumerate(ir["params"]):
        if "doc" in p and not re.search(r"(?i)defaults to|default value is|default:", p["doc"]):
            # (prose that already announces a value keeps its end: words appended after '... defaults to 32' would
            # become part of the announced value)
            extra = draw(st.integers(0, 25))
            off = draw(st.integers(0, len(domain.WORDS) - 1))
            words = [domain.WORDS[(off + 3 * j) % len(domain.WORDS)] if j % 3 else domain.HYPHENATED[(off + j) % len(domain.HYPHENATED)]
                     for j in range(extra)]  # one draw, many words (every third one a hyphenated compound)
            p["doc"] = " ".join([p["doc"].rstrip(".")] + words + [c05.UNIQ[i % len(c05.UNIQ)]])
    return ir


@st.composite
def _batch(draw):
    n = _CFG["irs"]
    widths = _CFG["widths"]
    if widths == "sweep":  # 40..200 in steps of 4 with a drawn offset, so that all residues are visited across batches
        widths = ["unset"] + list(range(40 + draw(st.integers(0, 3)), 201, 4))
    irs = draw(st.lists(_ir(), min_size=n, max_size=n))
    flip = [i % 4 for i in range(n)]  # bit 0: default text flipped; bit 1: function / method types in the docstring
    if widths == "boundary":
        widths = _boundary_widths(irs, flip, draw(st.integers(0, 2 ** 16)))
    return {"irs": irs, "widths": list(widths), "flip": flip}


def _boundary_widths(irs, flip, salt, cap=40):
    """Widths placed on the line lengths of the unwrapped artefacts: first the length L of the LONGEST line of every
    (description, kind) artefact - at width L everything fits exactly and nothing may change, at L-1 one line must wrap - then
    lengths of other lines. The unwrapped emission does not depend on the width, so it is computed here."""
    longest, other = set(), set()
    for i, ir in enumerate(irs):
        for kind in kinds.KINDS:
            try:
                text = kinds.emit_text(kind, domain.to_ir(ir), kinds.wrap_opts(kind, flip[i], False))
            except Exception:
                continue
            ls = sorted({len(l) for l in text.split("\n")})
            longest.add(ls[-1])
            other |= set(ls[:-1])
    ok = lambda w: 40 <= w <= 200
    first = sorted({w for L in longest for w in (L - 1, L) if ok(w)})
    rest = sorted({w for L in other for w in (L - 1, L, L + 1) if ok(w)} - set(first))
    room = max(0, cap - len(first))
    if len(rest) > room:
        step = max(1, -(-len(rest) // max(room, 1)))
        rest = rest[salt % step::step][:room]
    return sorted(set(first[:cap]) | set(rest)) or [80]


def strategy(mode, knob=None):
    return _batch()


def valid(case):
    return (isinstance(case, dict) and {"irs", "widths"} <= set(case) <= {"irs", "widths", "flip"} and case["irs"] and all(domain.valid_ir(i) for i in case["irs"])
            and len(case.get("flip") or case["irs"]) == len(case["irs"])
            and case["widths"] and all(w == "unset" or (isinstance(w, int) and w > 0) for w in case["widths"]))


def _child(batch_path, width):
    e = dict(os.environ, PYTHONDONTWRITEBYTECODE="1", PYTHONPATH=env.VERIF, PYTHONHASHSEED="0")
    e.pop("DOCTRANS_LINE_LENGTH", None)
    if width != "unset":
        e["DOCTRANS_LINE_LENGTH"] = str(width)
    p = subprocess.run([sys.executable, "-m", "lib.c18_driver", batch_path], cwd=env.VERIF, env=e, stdout=subprocess.PIPE,
                       stderr=subprocess.PIPE, timeout=1800)
    if p.returncode != 0:
        return {"crash": p.stderr.decode()[-600:]}
    return json.loads(p.stdout.decode())


POLICY = Policy(ignore_type_ws=True, sentence="same")


def shape_tags(cir, kind, width):
    w = 100 if width == "unset" else width
    t, per = domain.tags_of(cir)
    t = {x for x in t if not x.startswith("nparams")}
    t |= {"kind=" + kind, "width=%s" % ("unset" if width == "unset" else "<=60" if w <= 60 else "<=100" if w <= 100 else ">100")}
    prose_long = any(len(p.get("doc", "")) + len(p["name"]) + 12 > w for p in cir["params"])
    type_long = any(len(p.get("typ", "")) + len(p["name"]) + 12 > w for p in cir["params"])
    if prose_long:
        t.add("prose_exceeds_width")
    if type_long:
        t.add("type_exceeds_width")
    if len(cir["doc"]) + 4 > w:
        t.add("summary_exceeds_width")
    r = cir.get("returns") or {}
    if len(r.get("doc", "")) + 12 > w or len(r.get("typ", "")) + 12 > w:
        t.add("return_exceeds_width")
    if any(x.endswith("_exceeds_width") for x in t):
        t.add("wraps")
    return t, prose_long and type_long


def run_case(case):
    d = tempfile.mkdtemp(prefix="c18_")
    discs, seen = [], set()
    subcases = []
    evals = 0
    tags = {"irs=%d" % len(case["irs"]), "widths=%d" % len(case["widths"])}
    try:
        bp = os.path.join(d, "batch.json")
        with open(bp, "w") as f:
            json.dump({"irs": case["irs"], "flip": case.get("flip") or []}, f)
        with ThreadPoolExecutor(max_workers=min(16, len(case["widths"]))) as ex:
            results = list(ex.map(lambda w: _child(bp, w), case["widths"]))
        for width, res in zip(case["widths"], results):
            if "crash" in res:
                discs.append(Disc("child-crash", "width %s" % width, res["crash"], (), {"width=%s" % width, "crash"}))
                continue
            for key, rec in res["results"].items():
                i, kind = key.split(":")
                cir = case["irs"][int(i)]
                ctx, nt = shape_tags(cir, kind, width)
                flipped = int((case.get("flip") or [0] * len(case["irs"]))[int(i)])
                wo = kinds.wrap_opts(kind, flipped, True)
                ctx = ctx | {"emit_default_doc=%s" % wo["emit_default_doc"]} | ({"inline_types=%s" % wo["inline_types"]} if "inline_types" in wo else set())
                subcases.append((case_hash([cir, kind, width]), nt))
                evals += 1
                tags.add("kind=" + kind)
                if nt:
                    tags.add("nontrivial_triple")
                wr, nw = rec.get("wrap", {}), rec.get("nowrap", {})
                if rec.get("maxlen_nowrap", 0) > (100 if width == "unset" else width):
                    ctx = ctx | {"unwrapped_exceeds_width"}  # some line of the unwrapped artefact is longer than the width
                    tags.add("unwrapped_exceeds_width")

                def add(aspect, where, detail, ptags=()):
                    k = (aspect, kind, tuple(sorted(x for x in ctx if x.endswith("_exceeds_width"))))
                    if k not in seen:
                        seen.add(k)
                        discs.append(Disc(aspect, "ir %s %s width %s: %s" % (i, kind, width, where), detail + " | ir=" + json.dumps(cir)[:400], ptags, ctx))

                if "error" in nw:
                    ctx = ctx | {"unwrapped_fails"}
                    if "error" in wr:
                        continue  # fails with and without wrapping: judged by C01-C04
                if "error" in wr:
                    add("wrapped-raises:%s:%s" % (kind, wr["error"]), "emit/parse", "wrapped artefact fails (%s), unwrapped: %s" % (wr["error"], nw.get("error", "ok")))
                    continue
                if "error" in nw:
                    continue
                # a type that appears for a parameter the description gives none is an invention either way (finding
                # KF-D02); whether wrapping changes that invention says nothing about the description
                untyped = {p["name"] for p in cir["params"] if "typ" not in p}
                for side in (nw["ir"], wr["ir"]):
                    for p in side["params"]:
                        if p["name"] in untyped:
                            p.pop("typ", None)
                for dd in compare_ir(nw["ir"], domain.to_ir(wr["ir"]), POLICY):
                    add("wrap-changes:%s:%s" % (kind, dd.aspect), dd.where, dd.detail, dd.ptags)
    finally:
        shutil.rmtree(d, ignore_errors=True)
    return CaseResult(discs, tags, any(nt for _, nt in subcases), "%d triples over %d widths" % (evals, len(case["widths"])), evals=max(evals, 1), subcases=subcases)


def extra_phases(coll, tier, seed_value, shard, nshards):
    """Every width 40..200 (one child process each) on a small batch: breakage that needs one exact width is reached."""
    from ..runner import hyp_survey

    if shard != 0:
        return
    saved = dict(_CFG)
    try:
        _CFG.update(irs=3, widths=["unset"] + list(range(40, 201)))
        hyp_survey(mod(), coll, "core", None, 1 if tier == "quick" else 6, (seed_value + 4242) % (2 ** 32))
        # widths placed exactly on the line lengths of the batch's own artefacts
        _CFG.update(irs=4, widths="boundary", tidy=True)
        hyp_survey(mod(), coll, "core", None, 3 if tier == "quick" else 24, (seed_value + 9191) % (2 ** 32))
    finally:
        _CFG.update(saved)


MINIMISE_EVALS = {"quick": 2, "thorough": 10}


def focus(case, disc):
    import re

    m = re.match(r"ir (\d+) (\w+) width (\w+)", disc.get("where", ""))
    if not m:
        return None
    w = m.group(3)
    idx = int(m.group(1))
    return {"irs": [case["irs"][idx]], "widths": ["unset" if w == "unset" else int(w)],
            "flip": [int((case.get("flip") or [0] * len(case["irs"]))[idx])]}
