"""C07 Parsing source code is faithful to Python's own view of it."""
import ast
import inspect
import sys

from hypothesis import strategies as st

from .. import domain, interp
from ..oracle import Policy, compare_ir
from ..runner import CaseResult, Disc, raise_disc

PID = "C07"
LEVEL = "exploration"
RULE = (
    "cases = generated user-written definitions (not produced by doctrans): function / method (self, cls) / class with "
    "__init__; positional, keyword-only and **kwargs parameters; defaults (ints incl. negative, floats, strs, None, bools, "
    "names); annotations from the type grammar; a hand-rendered docstring in rest / numpydoc / google style documenting all, "
    "some or none of the parameters, in or out of signature order, with or without types. Oracle = the interpreter: the "
    "definition is executed (symbolic stand-ins for unknown names) and inspect.signature gives names, order, defaults; "
    "annotations come from the source. The parsed description must list exactly those names minus self/cls, each once, in "
    "source order, with the signature's defaults (typed) and annotations, each piece of prose on the parameter it names, "
    "documented types taking precedence, nothing dropped (undocumented **kwargs included) or duplicated. distinct = "
    "canonical-JSON hash; non-trivial = >=3 parameters, partially documented or out of order, >=1 default"
)
ASSUMPTIONS = ["docstrings are rendered by the harness, not by doctrans", "no positional-only parameters and no *args (quantifier text)"]
CORE_ALLOWED = ()
FRONTIER_KNOBS = ("partial_doc", "out_of_order", "kwarg_undocumented", "untyped_doc_entry", "name_default",
                  "no_annotation_no_doctype", "untyped_with_default", "class_partial_kwarg", "inmemory_conflict", "inmemory_partial_kwarg",
                  "kwarg_other_name", "doc_states_default")
FLOORS = {"inmemory": 0.1, "has_default": 0.3, "kind=method": 0.1, "kind=class_init": 0.1, "partial_doc_prefix": 0.05, "has_kwarg": 0.1}
NAMES = domain.NAMES
TYPES = ("int", "str", "float", "bool", "Optional[int]", "List[str]", "np.ndarray", "Literal['a', 'b']", "Union[int, float]")
DEFAULTS = {"int": ("5", "-3", "0", "100"), "str": ("'mnist'", "'two words'"), "float": ("0.5", "1e-07", "-0.25"), "bool": ("True", "False"),
            "Optional[int]": ("None", "3"), "List[str]": ("None",), "np.ndarray": ("None",), "Literal['a', 'b']": ("'a'", "'b'"),
            "Union[int, float]": ("2", "0.5")}


def budgets(tier):
    if tier == "quick":
        return {"core": 4000, "frontier": 300, "shards": 4}
    return {"core": 16 * 4000, "frontier": 16 * 400, "shards": 16}


def mod():
    return sys.modules[__name__]


@st.composite
def _param(draw, name, want_default):
    typ = draw(st.sampled_from(TYPES))
    p = {"name": name, "typ": typ, "default": None, "prose": "prose about %s %s" % (name, draw(st.sampled_from(domain.WORDS)))}
    if want_default:
        p["default"] = draw(st.sampled_from(DEFAULTS[typ]))
    return p


@st.composite
def _case(draw, knob):
    kind = draw(st.sampled_from(("function", "function", "method", "method", "class_init")))
    inmemory = (knob is None and kind != "method" and draw(st.integers(0, 3)) == 0) or knob in ("inmemory_conflict", "inmemory_partial_kwarg")
    if inmemory and kind == "method":
        kind = "function"
    first = None if kind == "function" else ("self" if kind == "class_init" else draw(st.sampled_from(("self", "cls"))))
    n = draw(st.integers(0 if knob is None else 2, 5))
    names = draw(st.lists(st.sampled_from(NAMES), min_size=n, max_size=n, unique=True))
    n_pos = draw(st.integers(0, n))
    k_def = draw(st.integers(0, n_pos))  # number of trailing positional parameters with a default
    args = [draw(_param(nm, i >= n_pos - k_def)) for i, nm in enumerate(names[:n_pos])]
    kwonly = [draw(_param(nm, draw(st.booleans()))) for nm in names[n_pos:]]
    kwarg = draw(st.sampled_from((None, None, "kwargs")))
    allp = args + kwonly
    style = draw(st.sampled_from(("rest", "numpydoc", "google")))
    documented = [p["name"] for p in allp]
    doc_kwarg = kwarg is not None
    if knob == "partial_doc" and len(allp) >= 2:
        keep = draw(st.lists(st.sampled_from(documented), min_size=1, max_size=len(documented) - 1, unique=True))
        documented = [d for d in documented if d in keep]
        if documented == [p["name"] for p in allp][: len(documented)]:
            documented = [p["name"] for p in allp][1:]  # not a prefix: the shape of the open finding
    elif knob in (None, "class_partial_kwarg") and len(allp) >= 2 and (knob or draw(st.integers(0, 2)) == 0):
        documented = documented[: draw(st.integers(1, len(documented) - 1))]  # a documented prefix keeps source order
        if knob == "class_partial_kwarg":
            kind, first, kwarg, doc_kwarg = "class_init", "self", "kwargs", True
        elif kind == "class_init":
            kwarg, doc_kwarg = None, False  # class + documented **kwargs + undocumented parameters: finding KF-U06
    elif knob == "out_of_order" and len(allp) >= 2:
        documented = draw(st.permutations(documented))
        if list(documented) == [p["name"] for p in allp]:
            documented = list(reversed(documented))
    elif knob == "kwarg_undocumented":
        kwarg, doc_kwarg = "kwargs", False
    elif knob in (None, "untyped_with_default") and draw(st.integers(0, 5)) == 0:
        documented = []  # no parameter documented at all (summary only)
        doc_kwarg = False
        if knob is None:
            kwarg = None  # an undocumented **kwargs is a shape of its own
    doc_types = True
    annotate = True
    conflict = None
    if knob == "untyped_doc_entry":
        doc_types = False
    elif knob == "no_annotation_no_doctype":
        doc_types, annotate = False, False
    elif knob is None:
        annotate = True if not documented else draw(st.booleans())
        doc_types = True if not annotate else draw(st.booleans()) if style == "rest" else True
        if draw(st.integers(0, 3)) == 0 and allp and not inmemory:
            conflict = draw(st.sampled_from([p["name"] for p in allp]))
            annotate, doc_types = True, True
    elif knob == "untyped_with_default":
        annotate, documented, doc_kwarg = False, [], False
        for p in kwonly:
            p["default"] = p["default"] or draw(st.sampled_from(DEFAULTS[p["typ"]]))
    if knob == "name_default" and allp:
        tgt = allp[-1]
        tgt["default"] = "stdout"
        if tgt in args:
            for p in args[args.index(tgt):]:
                p["default"] = p["default"] or "stdout"
    if inmemory:
        for p_ in args + kwonly:
            if p_["typ"] == "np.ndarray":  # a live class object does not know the alias it was imported under
                p_["typ"], p_["default"] = "int", (None if p_["default"] is None else "5")
    if knob == "inmemory_no_params":
        inmemory, kind, first, args, kwonly, kwarg, documented, doc_kwarg = True, "function", None, [], [], None, [], False
    if knob == "inmemory_conflict" and allp:
        conflict = draw(st.sampled_from([p["name"] for p in allp]))
        annotate, doc_types = True, True
    if knob == "inmemory_partial_kwarg" and len(allp) >= 2:
        documented = [p["name"] for p in allp][: max(1, len(allp) - 1)]
        kwarg, doc_kwarg = "kwargs", True
    elif inmemory and kwarg and doc_kwarg and len(documented) < len(allp):
        kwarg, doc_kwarg = None, False
    extra = {}
    if knob is None and not inmemory and annotate and draw(st.integers(0, 3)) == 0:
        extra["infer_type"] = True
    if knob is None and kind == "class_init" and not inmemory and args and draw(st.integers(0, 2)) == 0:
        extra["inner_static"] = True
        first = None
    if knob == "kwarg_other_name":
        # a var-keyword parameter that is not called kwargs, documented the usual way: `**options` in Google / numpydoc
        kwarg, doc_kwarg = draw(st.sampled_from(("options", "extra"))), True
        documented = [p["name"] for p in allp]
        extra["kwarg_stars"] = style != "rest"
        inmemory = False
    if knob == "doc_states_default":
        # the docstring states the defaults the signature has ('Defaults to 5'), for every documented parameter that has one
        documented = [p["name"] for p in allp]
        conflict = None
        have = [p["name"] for p in allp if p["default"] is not None]
        # ... or only for some of them: the first one always, each later one with probability 1/2
        extra["state_defaults"] = [n_ for i_, n_ in enumerate(have) if i_ == 0 or draw(st.booleans())] or True
    return dict({"inmemory": inmemory, "kind": kind, "first": first, "args": args, "kwonly": kwonly, "kwarg": kwarg, "style": style,
                 "documented": list(documented), "doc_kwarg": doc_kwarg, "doc_types": doc_types, "annotate": annotate,
                 "conflict": conflict, "summary": "Summary of the thing %s" % draw(st.sampled_from(domain.WORDS))}, **extra)


def strategy(mode, knob=None):
    return _case(knob if mode == "frontier" else None)


def valid(case):
    try:
        src = render(case)
        ast.parse(src)
        case.setdefault("inmemory", False)
        names = [p["name"] for p in case["args"] + case["kwonly"]]
        return len(names) == len(set(names)) and all(d in names for d in case["documented"]) and case["style"] in ("rest", "numpydoc", "google")
    except Exception:
        return False


# ----------------------------------------------------------------------------- rendering (by the harness)
def doc_type(case, p):
    if case.get("conflict") == p["name"]:
        return "complex"
    return p["typ"]


def render_doc(case, indent):
    by = {p["name"]: p for p in case["args"] + case["kwonly"]}
    def said(p):
        sd = case.get("state_defaults")
        if sd and (sd is True or p["name"] in sd) and p["default"] is not None and p["default"] != "stdout":
            return "%s. Defaults to %s" % (p["prose"], p["default"].replace("'", '"'))
        return p["prose"]

    entries = [(n, said(by[n]), doc_type(case, by[n]) if case["doc_types"] else None) for n in case["documented"]]
    if case["kwarg"] and case["doc_kwarg"]:
        entries.append((("**" if case.get("kwarg_stars") else "") + case["kwarg"], "extra keyword arguments", "dict" if case["doc_types"] else None))
    lines = [case["summary"], ""]
    if case["style"] == "rest":
        for n, prose, typ in entries:
            lines.append(":param %s: %s" % (n, prose))
            if typ:
                lines.append(":type %s: ```%s```" % (n, typ))
            lines.append("")
    elif case["style"] == "numpydoc" and entries:
        lines += ["Parameters", "----------"]
        for n, prose, typ in entries:
            lines.append("%s : %s" % (n, typ) if typ else n)
            lines.append("    " + prose)
        lines.append("")
    elif entries:
        lines.append("Args:")
        for n, prose, typ in entries:
            lines.append("  %s (%s): %s" % (n, typ, prose) if typ else "  %s: %s" % (n, prose))
        lines.append("")
    pad = " " * indent
    return pad + '"""\n' + "\n".join((pad + l) if l else "" for l in lines) + "\n" + pad + '"""'


def _arg(case, p):
    s = p["name"]
    if case["annotate"]:
        s += ": " + p["typ"]
    if p["default"] is not None:
        s += (" = " if case["annotate"] else "=") + p["default"]
    return s


def render(case):
    parts = ([case["first"]] if case["first"] else []) + [_arg(case, p) for p in case["args"]]
    if case["kwonly"]:
        parts += ["*"] + [_arg(case, p) for p in case["kwonly"]]
    if case["kwarg"]:
        parts.append("**" + case["kwarg"])
    sig = ", ".join(parts)
    if case["kind"] == "class_init" and case.get("inner_static"):
        # the class is merged with a static factory instead of __init__: no implicit first argument to strip
        return "class Target(object):\n%s\n\n    @staticmethod\n    def build(%s):\n        pass\n" % (render_doc(case, 4), sig)
    if case["kind"] == "class_init":
        return "class Target(object):\n%s\n\n    def __init__(%s):\n        pass\n" % (render_doc(case, 4), sig)
    if case["kind"] == "method":
        return "class Holder(object):\n    def target(%s):\n%s\n        return None\n" % (sig, render_doc(case, 8))
    return "def target(%s):\n%s\n    return None\n" % (sig, render_doc(case, 4))


# ----------------------------------------------------------------------------- oracle: Python's view
def python_view(case, src):
    ns = interp.run_source(src)
    if case["kind"] == "class_init":
        f = ns["Target"].build if case.get("inner_static") else ns["Target"].__init__
    elif case["kind"] == "method":
        f = ns["Holder"].__dict__["target"]
    else:
        f = ns["target"]
    sig = inspect.signature(f)
    tree = ast.parse(src)
    fdef = next(n for n in ast.walk(tree) if isinstance(n, ast.FunctionDef))
    ann = {a.arg: (ast.unparse(a.annotation) if a.annotation is not None else None)
           for a in fdef.args.args + fdef.args.kwonlyargs + ([fdef.args.kwarg] if fdef.args.kwarg else [])}
    by = {p["name"]: p for p in case["args"] + case["kwonly"]}
    params = []
    for name, prm in sig.parameters.items():
        if name in ("self", "cls"):
            continue
        q = {"name": name}
        documented = name in case["documented"] or (prm.kind is inspect.Parameter.VAR_KEYWORD and case["doc_kwarg"])
        if prm.kind is inspect.Parameter.VAR_KEYWORD:
            if documented:
                q["doc"] = "extra keyword arguments"
            if name.endswith("kwargs") or case.get("kwarg_stars"):
                q["typ"] = "Optional[dict]"  # doctrans' convention for a parameter it can recognise as var-keyword
                q["default"] = None
            else:
                q["_varkw"] = True  # a None marker as default is accepted (functions get one, classes merged with __init__ do not)
                if documented and case["doc_types"]:
                    q["typ"] = "dict"  # `:param options:` in ReST looks like any other parameter: the documented type
            params.append(q)
            continue
        if documented:
            q["doc"] = by[name]["prose"]
        t = None
        if documented and case["doc_types"]:
            t = doc_type(case, by[name])  # documented information takes precedence
        elif ann.get(name):
            t = ann[name]
        if t:
            q["typ"] = t
        if prm.default is not inspect.Parameter.empty:
            d = prm.default
            if isinstance(d, interp.Sym):
                d = "```%r```" % d
            q["default"] = d
        params.append(q)
    return {"doc": case["summary"], "params": params}


_n = [0]


def _run_inmemory(case, src, expected, tags, nontrivial):
    """The same definition as a live object (imported from a temporary module): parse.function / parse.class_ go through
    inspect (signature, getsource, getdoc)."""
    import importlib
    import os
    import shutil
    import tempfile

    from doctrans import parse

    _n[0] += 1
    name = "c07mod_%d_%d" % (os.getpid(), _n[0])
    d = tempfile.mkdtemp(prefix="c07_")
    try:
        with open(os.path.join(d, name + ".py"), "w") as f:
            f.write("from typing import *\nimport sys\nstdout = sys.stdout\n\n\nclass _Np(object):\n    ndarray = list\n\n\nnp = _Np()\n\n\n" + src)
        sys.path.insert(0, d)
        importlib.invalidate_caches()
        try:
            m = importlib.import_module(name)
            obj = getattr(m, "Target" if case["kind"] == "class_init" else "target")
            got = (parse.class_(obj, merge_inner_function="build" if case.get("inner_static") else "__init__")
                   if case["kind"] == "class_init" else parse.function(obj))
        except Exception as e:
            return CaseResult([raise_disc(e, "parse-inmemory")], tags, nontrivial, "in-memory parse raised %s" % type(e).__name__)
    finally:
        if d in sys.path:
            sys.path.remove(d)
        sys.modules.pop(name, None)
        shutil.rmtree(d, ignore_errors=True)
    per = {p["name"]: ({"undocumented"} if "doc" not in p else set()) | ({"untyped"} if "typ" not in p else set())
           | ({"has_default"} if "default" in p else set()) | ({"kwarg"} if p["name"].endswith("kwargs") else set()) for p in expected["params"]}
    discs = compare_ir(expected, got, Policy(returns=False, absent_default_ok=_absent_ok), per)
    return CaseResult(discs, tags, nontrivial, "in-memory %s: %s" % (case["kind"], "ok" if not discs else discs[0].aspect))


def _absent_ok(exp, got):
    # a parameter without default has none in Python's view; doctrans may not invent one - except the None marker it
    # gives a var-keyword parameter ("nothing to pass")
    from ..oracle import NONE_ALIASES

    return bool(exp.get("_varkw")) and (got is None or (isinstance(got, str) and got in NONE_ALIASES))


def run_case(case):
    from doctrans import parse

    src = render(case)
    allp = case["args"] + case["kwonly"]
    names = [p["name"] for p in allp]
    tags = {"kind=" + case["kind"], "style=" + case["style"], "annotate=%s" % case["annotate"], "doc_types=%s" % case["doc_types"]}
    if any(p["default"] is not None for p in allp):
        tags.add("has_default")
    ndoc = len(case["documented"])
    if 0 < ndoc < len(allp):
        tags.add("partial_doc_prefix" if case["documented"] == names[:ndoc] else "partial_doc")
    if ndoc == 0:
        tags.add("no_param_documented")
    if ndoc >= 2 and case["documented"] != [n for n in names if n in case["documented"]]:
        tags.add("out_of_order")
    if case.get("inner_static"):
        tags.add("inner_static")
    if case.get("state_defaults"):
        tags.add("doc_states_default")
    if case["kwarg"] and not case["kwarg"].endswith("kwargs"):
        tags.add("kwarg_other_name")
    if case["kwarg"]:
        tags.add("has_kwarg")
        if not case["doc_kwarg"]:
            tags.add("kwarg_undocumented")
    if not case["doc_types"] and ndoc:
        tags.add("untyped_doc_entry")
    if not case["doc_types"] and not case["annotate"]:
        tags.add("no_annotation_no_doctype")
    if case["conflict"]:
        tags.add("conflicting_type")
    if any(p["default"] == "stdout" for p in allp):
        tags.add("name_default")
    if not case["annotate"] and any(p["default"] is not None and not (p["name"] in case["documented"] and case["doc_types"]) for p in allp):
        tags.add("untyped_with_default")
    if case["kwonly"]:
        tags.add("has_kwonly")
    if case["kind"] == "class_init" and case["kwarg"] and case["doc_kwarg"] and 0 < ndoc < len(allp):
        tags.add("class_partial_kwarg")
    if case.get("inmemory") and case["kwarg"] and case["doc_kwarg"] and ndoc < len(allp):
        tags.add("inmemory_partial_kwarg")
    if case.get("inmemory") and not allp and not case["kwarg"]:
        tags.add("inmemory_no_params")
    if any(p["default"] is None for p in case["args"]) and any(p["default"] is not None for p in case["args"]):
        tags.add("mixed_positional_defaults")
    nontrivial = len(allp) >= 3 and "has_default" in tags and bool(
        {"partial_doc", "partial_doc_prefix", "out_of_order", "has_kwonly", "mixed_positional_defaults", "has_kwarg"} & tags)
    try:
        expected = python_view(case, src)
    except Exception as e:
        from .. import env

        raise env.HarnessError("generated definition does not execute: %s\n%s" % (e, src))
    tree = ast.parse(src)
    if case.get("inmemory"):
        tags.add("inmemory")
        return _run_inmemory(case, src, expected, tags, nontrivial)
    it = bool(case.get("infer_type"))  # may only fill in a type that nobody gave, never replace one
    if it:
        tags.add("infer_type")
    try:
        if case["kind"] == "class_init":
            got = parse.class_(tree.body[0], merge_inner_function="build" if case.get("inner_static") else "__init__", infer_type=it)
        elif case["kind"] == "method":
            got = parse.function(tree.body[0].body[0], infer_type=it)
        else:
            got = parse.function(tree.body[0], infer_type=it)
    except Exception as e:
        return CaseResult([raise_disc(e, "parse")], tags, nontrivial, "parse raised %s" % type(e).__name__)
    per = {}
    for p in expected["params"]:
        t = set()
        if "doc" not in p:
            t.add("undocumented")
        if "typ" not in p:
            t.add("untyped")
        if "default" in p:
            t.add("has_default")
            if domain.is_code(p["default"]) if isinstance(p["default"], str) else False:
                t.add("name_default")
        if p["name"].endswith("kwargs"):
            t.add("kwarg")
        per[p["name"]] = t
    discs = compare_ir(expected, got, Policy(returns=False, absent_default_ok=_absent_ok), per)
    n_got = list((got.get("params") or {}))
    if len(n_got) != len(set(n_got)):
        discs.append(Disc("names:duplicate", "", repr(n_got)))
    want_type = {"function": "static", "method": case["first"], "class_init": None}[case["kind"]]
    if want_type and got.get("type") != want_type:
        discs.append(Disc("function-type", "type", "expected %r got %r" % (want_type, got.get("type"))))
    return CaseResult(discs, tags, nontrivial, "%s/%s: %s" % (case["kind"], case["style"], "ok" if not discs else discs[0].aspect))
