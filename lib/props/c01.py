"""C01 Docstring round-trip fidelity in ReST, numpydoc and Google styles."""
from hypothesis import strategies as st

from .. import domain, irprops
from ..oracle import Policy, compare_ir
from ..runner import CaseResult, raise_disc

PID = "C01"
LEVEL = "exploration"
RULE = (
    "cases = generated interface description (lib/domain.py: base IR + shape mutators) x style in {rest,numpydoc,google} "
    "x emit_default_doc x word_wrap x parse-side default-sentence removal; oracle = parse.docstring(emit.docstring(ir)) "
    "compared with ir (names/order, types as ASTs, prose modulo whitespace and default sentence, defaults by value and "
    "Python type, return entry, summary; absent defaults must stay absent; any exception is a discrepancy). "
    "distinct = canonical-JSON hash of the case; non-trivial = (>=2 parameters with >=1 explicit non-None default and "
    ">=1 non-scalar type) or a return entry"
)
ASSUMPTIONS = [
    "prose is kept shorter than the wrap width here; wrapping is decided by C18",
    "type strings are spelled as ast.unparse spells them",
    "back-tick quoting of code defaults is quoting, not value (DESIGN.md section 3 reading 2)",
]

# shapes that pass the strict comparison on the unchanged tree: part of the core budget
CORE_ALLOWED = ("optional_zero", "str_with_squote", 
    "kwargs_param", "multiline_summary", "float_default", "negative_int", "zero_int", "bool_false", "none_default",
    "prose_trailing_stop", "required_bool", "no_params", "str_with_space", "code_default", "int_under_nonscalar_type",
    "default_words", "prose_punct", "optional_prose", "union_with_str", "str_with_dot", "code_default_dot", "kwargs_sole_default")
# shapes of open findings: excluded from the core by construction, each probed by its own frontier budget
FRONTIER_KNOBS = irprops.frontier_knobs((
    "untyped_param", "undocumented_param", "default_without_prose", "bare_param", "str_with_space",
    "empty_str", "str_with_quote", "kwargs_sole_default_bare", "code_default_strtype",
    "nodefault_after_default", "returns", "returns_default", "returns_untyped",
    "returns_undocumented", "returns_only", "multiline_prose", "foreign_tokens", "foreign_tokens_strong",
))
FLOORS = {"has_default": 0.3, "style=numpydoc": 0.15, "style=google": 0.15, "style=rest": 0.15}


def budgets(tier):
    if tier == "quick":
        return {"core": 1200, "frontier": 60, "shards": 1}
    return {"core": 16 * 9000, "frontier": 16 * 300, "shards": 16}


CONFIG = st.fixed_dictionaries(
    {
        "style": st.sampled_from(("rest", "numpydoc", "google")),
        "emit_default_doc": st.sampled_from((True, True, True, False)),
        "word_wrap": st.booleans(),
        "parse_keep_sentence": st.booleans(),
    }
)


def strategy(mode, knob=None):
    return irprops.ir_case_strategy(mod(), mode, knob, CONFIG)


def mod():
    import sys

    return sys.modules[__name__]


def valid(case):
    return (
        isinstance(case, dict)
        and set(case) == {"ir", "style", "emit_default_doc", "word_wrap", "parse_keep_sentence"}
        and case["style"] in ("rest", "numpydoc", "google")
        and domain.valid_ir(case["ir"])
    )


def run_case(case):
    from doctrans import emit, parse

    cir = case["ir"]
    tags, per = domain.tags_of(cir)
    tags |= {"style=" + case["style"], "edd=%s" % case["emit_default_doc"], "ww=%s" % case["word_wrap"],
             "keep=%s" % case["parse_keep_sentence"]}
    per_by_name = {p["name"]: t for p, t in zip(cir["params"], per)}
    n_explicit = sum(1 for p in cir["params"] if p.get("default", None) is not None)
    nontrivial = (
        len(cir["params"]) >= 2 and n_explicit >= 1 and any(p.get("typ") not in (None,) + domain.SCALARS for p in cir["params"])
    ) or bool(cir.get("returns"))
    try:
        text = emit.docstring(
            domain.to_ir(cir), docstring_format=case["style"], word_wrap=case["word_wrap"],
            emit_default_doc=case["emit_default_doc"],
        )
    except Exception as e:
        return CaseResult([raise_disc(e, "emit")], tags, nontrivial, "emit raised %s" % type(e).__name__)
    try:
        got = parse.docstring(text, emit_default_doc=case["parse_keep_sentence"])
    except Exception as e:
        return CaseResult([raise_disc(e, "parse")], tags, nontrivial, "parse raised %s" % type(e).__name__)
    policy = Policy(defaults=case["emit_default_doc"])
    discs = compare_ir(cir, got, policy, per_by_name)
    return CaseResult(discs, tags, nontrivial, "round trip %s" % ("ok" if not discs else "; ".join(d.aspect for d in discs[:4])))
