"""C15 Dotted locations address exactly one node, the right one."""
import ast
import copy
import sys

from hypothesis import strategies as st

from .. import progs
from ..runner import CaseResult, Disc, raise_disc

PID = "C15"
LEVEL = "exploration"
RULE = (
    "cases = generated module (nesting depth <= 3, simple names repeated across scopes, functions before and after classes, "
    "positional / keyword-only / **kwargs arguments) x one location: every kind of location the reference model lists, and "
    "near-misses (existing prefix + wrong tail, right tail under the wrong parent, bare inner name). Oracle = independent "
    "resolver written over ast (lib/progs.py: exact qualified path). (1) find_in_ast(loc, ast_parse(src)) must be the "
    "model's node (type, line, column, name) or None when the model has none; (2) RewriteAtQuery(loc, marker).visit(tree) "
    "must yield exactly the tree in which the model's node - and no other - is replaced, and `replaced` must be true iff the "
    "model resolves. distinct = canonical-JSON hash; non-trivial = module with >=1 function preceding a class and >=2 "
    "scopes sharing a simple name"
)
ASSUMPTIONS = ["names are unique within one scope (a duplicate makes 'the node at that path' ill-defined)",
               "function bodies hold no named definitions, so an argument path is unambiguous"]
CORE_ALLOWED = ()
FRONTIER_KNOBS = ("def_target", "const_collision")
FLOORS = {"resolves": 0.3, "missing": 0.1, "def_before": 0.15, "arg_target": 0.1}


def budgets(tier):
    if tier == "quick":
        return {"core": 1200, "frontier": 300, "shards": 4}
    return {"core": 16 * 6000, "frontier": 16 * 2000, "shards": 16}


def mod():
    return sys.modules[__name__]


def _has_def_before(tree, node, path):
    """A FunctionDef that a document-order scan meets before reaching the target (not an ancestor of it)."""
    anc = set()
    cur = tree
    for seg in path[:-1]:
        ch = progs.model_children(cur)
        if seg not in ch:
            break
        cur = ch[seg][0]
        anc.add(id(cur))
    line = getattr(node, "lineno", 10 ** 9) if node is not None else 10 ** 9
    for n in ast.walk(tree):
        if isinstance(n, ast.FunctionDef) and id(n) not in anc and n is not node and n.lineno < line:
            return True
    return False


@st.composite
def _case(draw, knob):
    m = draw(progs.module(min_size=2 if knob else 1))
    if knob == "const_collision":
        # a string constant spelled like a definition / argument name somewhere in the module
        tgt = [s for s in m["body"] if s["k"] in ("ann", "def")]
        t = draw(st.sampled_from(progs.COLLIDING_TYPES))
        if tgt:
            s0 = draw(st.sampled_from(tgt))
            if s0["k"] == "ann":
                s0["typ"] = t
            elif s0["args"]:
                s0["args"][0]["typ"] = t
            else:
                m["body"].insert(0, {"k": "ann", "name": "lit0", "typ": t, "value": None})
        else:
            m["body"].insert(0, {"k": "ann", "name": "lit0", "typ": t, "value": None})
    src = progs.render(m)
    tree = ast.parse(src)
    locs = progs.model_locations(tree)
    if not locs:
        return {"module": m, "loc": ["zzz"]}
    excluded = ("def",)
    if knob is None or knob == "const_collision":
        if draw(st.integers(0, 3)) == 0:
            how = draw(st.sampled_from(("wrong_tail", "wrong_parent", "bare_inner")))
            base, _ = draw(st.sampled_from(locs))
            if how == "wrong_tail":
                loc = base[:-1] + [draw(st.sampled_from(("nope", "missing", "q")))]
            elif how == "bare_inner" and len(base) > 1:
                loc = base[-1:]
            else:
                containers = [p for p, k in locs if k in ("class", "def") and p != base[:-1]]
                loc = (draw(st.sampled_from(containers)) if containers else ["nope"]) + base[-1:]
            node, kind = progs.model_resolve(tree, loc)
            if kind not in excluded:
                return {"module": m, "loc": loc}
        pool = [l for l in locs if l[1] not in excluded] or [(["zzz"], None)]
    elif knob == "def_target":
        pool = [l for l in locs if l[1] == "def"] or locs
    else:
        pool = [l for l in locs if l[1] == "kwarg"] or locs
    loc, _ = draw(st.sampled_from(pool))
    return {"module": m, "loc": loc}


def strategy(mode, knob=None):
    return _case(knob if mode == "frontier" else None)


def valid(case):
    return (isinstance(case, dict) and set(case) == {"module", "loc"} and progs.valid_module(case["module"])
            and isinstance(case["loc"], list) and case["loc"] and all(isinstance(s, str) and s.isidentifier() for s in case["loc"]))


def _marker_for(kind):
    from doctrans.ast_utils import set_arg

    if kind in ("arg", "kwonlyarg", "kwarg"):
        return set_arg("MARKER", annotation=ast.Name("int", ast.Load()))
    return ast.parse("MARKER: int = 1").body[0]


def _model_replace(src, path, kind):
    """The tree in which exactly the model's node is replaced by the marker."""
    tree = ast.parse(src)
    node, kind = progs.model_resolve(tree, path)
    parent = tree
    for seg in path[:-1]:
        parent = progs.model_children(parent)[seg][0]
    if kind in ("arg", "kwonlyarg", "kwarg"):
        a = parent.args
        mk = ast.arg(arg="MARKER", annotation=ast.Name("int", ast.Load()))
        if kind == "arg":
            a.args[a.args.index(node)] = mk
        elif kind == "kwonlyarg":
            a.kwonlyargs[a.kwonlyargs.index(node)] = mk
        else:
            a.kwarg = mk
    else:
        parent.body[parent.body.index(node)] = ast.parse("MARKER: int = 1").body[0]
    return ast.dump(ast.parse(ast.unparse(ast.fix_missing_locations(tree))))


def run_case(case):
    from doctrans.ast_utils import RewriteAtQuery, find_in_ast
    from doctrans.source_transformer import ast_parse

    src = progs.render(case["module"])
    loc = list(case["loc"])
    ref_tree = ast.parse(src)
    mnode, mkind = progs.model_resolve(ref_tree, loc)
    tags = {"kind=%s" % (mkind or "none"), "depth=%d" % len(loc), "resolves" if mnode is not None else "missing"}
    if _has_def_before(ref_tree, mnode, loc):
        tags.add("def_before")
    if mkind in ("arg", "kwonlyarg", "kwarg"):
        tags.add("arg_target")
    names = [n for p, _ in progs.model_locations(ref_tree) for n in p[-1:]]
    if names.count(loc[-1]) > 1:
        tags.add("name_repeated")
    if any(isinstance(n, ast.FunctionDef) for n in ref_tree.body):
        tags.add("toplevel_def")
    if any(isinstance(n, ast.Constant) and isinstance(n.value, str) and n.value in loc for n in ast.walk(ref_tree)):
        tags.add("const_named_like_segment")
    first_class = next((i for i, n in enumerate(ref_tree.body) if isinstance(n, ast.ClassDef)), None)
    fn_before_class = first_class is not None and any(isinstance(n, ast.FunctionDef) for n in ref_tree.body[:first_class])
    nontrivial = fn_before_class and len(names) != len(set(names))
    discs = []
    # ---- (1) find_in_ast
    try:
        tree = ast_parse(src, skip_docstring_remit=True)
        got = find_in_ast(list(loc), tree)
        if progs.node_id(got) != progs.node_id(mnode):
            asp = "find:wrong-node" if (got is not None and mnode is not None) else ("find:not-found" if got is None else "find:found-nonexistent")
            discs.append(Disc(asp, ".".join(loc), "model %r doctrans %r" % (progs.node_id(mnode), progs.node_id(got))))
    except Exception as e:
        discs.append(raise_disc(e, "find"))
    # ---- (1a) the same definition spelled `async def`: a location names a definition by its qualified path, whichever
    # statement introduces it; judged only where the plain spelling resolved correctly, so nothing else is re-reported
    if mkind == "def" and not discs:
        try:
            lines = src.split("\n")
            ln = mnode.lineno - 1
            if lines[ln].lstrip().startswith("def "):
                tags.add("async_variant")
                ind = len(lines[ln]) - len(lines[ln].lstrip())
                lines[ln] = lines[ln][:ind] + "async " + lines[ln][ind:]
                src_a = "\n".join(lines)
                want = mnode.name, mnode.lineno
                got = find_in_ast(list(loc), ast_parse(src_a, skip_docstring_remit=True))
                if not (isinstance(got, ast.AsyncFunctionDef) and (got.name, got.lineno) == want):
                    discs.append(Disc("find:async-def", ".".join(loc), "`async def` at line %d: doctrans resolved %r" % (
                        want[1], None if got is None else (type(got).__name__, getattr(got, "lineno", None)))))
        except Exception as e:
            discs.append(raise_disc(e, "find-async"))
    # ---- (1b) the caller's location list is an input, not scratch space: one list object is reused for a lookup that
    # starts at the class the location begins with (when there is one) and then for the lookup from the module
    try:
        tree = ast_parse(src, skip_docstring_remit=True)
        shared = list(loc)
        start = next((n for n in tree.body if isinstance(n, ast.ClassDef) and loc and n.name == loc[0]), None)
        if start is not None and len(loc) >= 2:
            tags.add("class_rooted_lookup")
            find_in_ast(shared, start)
        find_in_ast(shared, tree)
        if shared != list(loc):
            discs.append(Disc("find:location-list-mutated", ".".join(loc), "the list passed in is now %r" % (shared,)))
        got = find_in_ast(shared, tree)
        if progs.node_id(got) != progs.node_id(mnode):
            discs.append(Disc("find:second-lookup-differs", ".".join(loc), "model %r doctrans %r with the reused list %r" % (
                progs.node_id(mnode), progs.node_id(got), shared)))
    except Exception as e:
        discs.append(raise_disc(e, "find-reuse"))
    # ---- (2) RewriteAtQuery
    try:
        tree = ast_parse(src, skip_docstring_remit=True)
        rw = RewriteAtQuery(search=list(loc), replacement_node=_marker_for(mkind))
        new = rw.visit(tree)
        try:
            got_dump = ast.dump(ast.parse(ast.unparse(ast.fix_missing_locations(new))))
        except Exception:
            got_dump = None
            discs.append(Disc("rewrite:unparsable-tree", ".".join(loc), "the rewritten tree cannot be unparsed and parsed again"))
        if mnode is None:
            want_dump = ast.dump(ast.parse(ast.unparse(ast.parse(src))))
            if rw.replaced:
                discs.append(Disc("rewrite:replaced-nonexistent", ".".join(loc), "replaced flag set for a location that does not exist"))
            if got_dump is not None and got_dump != want_dump:
                discs.append(Disc("rewrite:changed-nonexistent", ".".join(loc), "tree changed although the location does not exist"))
        else:
            want_dump = _model_replace(src, loc, mkind)
            if not rw.replaced:
                discs.append(Disc("rewrite:not-replaced:%s" % mkind, ".".join(loc), "replaced flag false for an existing %s" % mkind))
            elif got_dump is not None and got_dump != want_dump:
                discs.append(Disc("rewrite:wrong-tree:%s" % mkind, ".".join(loc), ast.unparse(new)[:300]))
    except Exception as e:
        discs.append(raise_disc(e, "rewrite"))
    return CaseResult(discs, tags, nontrivial, "%s -> %s" % (".".join(loc), mkind or "nothing"), evals=2)
