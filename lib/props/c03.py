"""C03 Function / method round-trip fidelity."""
import sys

from hypothesis import strategies as st

from .. import domain, irprops, kinds
from ..oracle import Policy, none_ok
from ..runner import Disc

PID = "C03"
LEVEL = "exploration"
RULE = (
    "cases = generated interface description x function_type in {static,self,cls} x inline_types x emit_as_kwonlyargs x "
    "indent_level 0..2 x emit_default_doc x emit_separating_tab x word_wrap; oracle = parse.function(ast.parse(to_code("
    "emit.function(ir,...)))) compared with ir: names/order, types (annotation or :type line), prose, explicit defaults "
    "(value and Python type), **kwargs parameter present and last, return typ/prose/default, function type recovered; an "
    "absent default may become None; parsing must not raise. distinct = canonical-JSON hash; non-trivial = (>=1 defaulted "
    "and >=1 non-defaulted parameter) or **kwargs or a return default"
)
ASSUMPTIONS = ["the function is parsed from its unparsed text", "emit.function supports ReST docstrings only (documented limit)"]
CORE_ALLOWED = ("optional_zero", "str_with_squote", "kwargs_param", "multiline_summary", "float_default", "negative_int", "zero_int", "bool_false", "none_default",
                "prose_trailing_stop", "required_bool", "no_params", "str_with_space", "default_words", "prose_punct", "optional_prose", "union_with_str", "str_with_dot", "kwargs_sole_default")
FRONTIER_KNOBS = irprops.frontier_knobs((
    "untyped_param", "undocumented_param", "default_without_prose", "bare_param", "empty_str",
    "str_with_quote", "code_default", "code_default_dot", "int_under_nonscalar_type",
    "nodefault_after_default", "returns", "returns_default", "returns_untyped", "returns_undocumented", "returns_only",
    "multiline_prose", "foreign_tokens",
)) + ("cfg:edd_inline",)
FLOORS = {"has_default": 0.3, "function_type=self": 0.1, "function_type=cls": 0.1, "function_type=static": 0.2}


def budgets(tier):
    if tier == "quick":
        return {"core": 1000, "frontier": 50, "shards": 1}
    return {"core": 16 * 6000, "frontier": 16 * 250, "shards": 16}


def mod():
    return sys.modules[__name__]


OPTS = st.one_of(kinds.opts_strategy("function"), kinds.opts_strategy("method"))
CFG_KNOBS = ("cfg:edd_inline",)


def _cfg(o, knob, flip):
    """Configuration shapes of open findings are excluded from the core by construction, like IR shapes."""
    o = dict(o)
    if knob == "cfg:edd_inline":
        o["emit_default_doc"] = o["inline_types"] = True
    elif o["emit_default_doc"] and o["inline_types"]:
        o["emit_default_doc" if flip else "inline_types"] = False
    return o


def strategy(mode, knob=None):
    ir_knob = None if knob in CFG_KNOBS else knob
    return st.builds(lambda c, o, flip: {"ir": c["ir"], "opts": _cfg(o, knob, flip)},
                     irprops.ir_case_strategy(mod(), mode if ir_knob else "core", ir_knob, st.just({})), OPTS, st.booleans())


def valid(case):
    return irprops.valid_rt_case(case, "function")


POLICY = Policy(absent_default_ok=none_ok, summary="lines")


def _extra(cir, got, text, discs, per, opts):
    if got.get("type") != opts["function_type"]:
        discs.append(Disc("function-type", "type", "expected %r got %r" % (opts["function_type"], got.get("type"))))
    names = list(got.get("params") or {})
    kw = [n for n in names if n.endswith("kwargs")]
    if kw and names[-1] != kw[0]:
        discs.append(Disc("kwargs:not-last", kw[0], "order %r" % names))


def run_case(case):
    cir = case["ir"]
    plain = [p for p in cir["params"] if not p["name"].endswith("kwargs")]
    nontrivial = (any("default" in p for p in plain) and any("default" not in p for p in plain)) or len(plain) != len(
        cir["params"]) or "default" in (cir.get("returns") or {})
    return irprops.roundtrip(case, "function", POLICY, nontrivial, _extra)
