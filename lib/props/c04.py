"""C04 argparse-function round-trip fidelity."""
import sys

from hypothesis import strategies as st

from .. import domain, irprops, kinds
from ..oracle import ZERO, NONE_ALIASES, Policy
from ..runner import Disc

PID = "C04"
LEVEL = "exploration"
RULE = (
    "cases = generated interface description restricted to argparse-expressible types (scalars; Optional/List/Literal of "
    "scalars; kwargs-named dict parameters) x emit_default_doc x word_wrap x wrap_description; oracle = "
    "parse.argparse_ast(ast.parse(to_code(emit.argparse_function(ir)))) compared with ir: description = summary, option "
    "names/order, help = prose, scalar type, Literal <-> choices, List <-> append, Optional <-> not required, explicit "
    "defaults typed, return entry when it carries a default. Permitted: a required option without default acquires the "
    "zero value of its type. distinct = canonical-JSON hash; non-trivial = >=1 Literal and >=1 Optional or List, or a "
    "default appearing before an option without one"
)
ASSUMPTIONS = ["the function is parsed from its unparsed text", "types are restricted to what argparse can express (quantifier text)"]
CORE_ALLOWED = ("optional_zero", "kwargs_param", "multiline_summary", "float_default", "negative_int", "zero_int", "bool_false",
                "prose_trailing_stop", "no_params", "str_with_space", "default_words", "prose_punct", "undocumented_param",
                "default_without_prose", "str_with_dot", "str_with_quote", "multiline_prose", "foreign_tokens", "returns",
                "returns_only", "nodefault_after_default", "int_literal", "single_literal", "required_bool", "none_default", "returns_default")
FRONTIER_KNOBS = irprops.frontier_knobs((
    "untyped_param", "bare_param", "empty_str", "code_default", "long_return_prose", "mixed_union",
))
FLOORS = {"has_default": 0.3}
KIND = "argparse"


def budgets(tier):
    if tier == "quick":
        return {"core": 1000, "frontier": 50, "shards": 1}
    return {"core": 16 * 6000, "frontier": 16 * 250, "shards": 16}


def mod():
    return sys.modules[__name__]


def strategy(mode, knob=None):
    return st.builds(lambda c, o: {"ir": c["ir"], "opts": o},
                     irprops.ir_case_strategy(mod(), mode, knob, st.just({}), argparse_only=True,
                                              base_exclude=()), kinds.opts_strategy(KIND))


def valid(case):
    return irprops.valid_rt_case(case, KIND)


def _zero_ok(exp, got_default):
    """Documented normalisation: a *required* option (not Optional) without default acquires the zero value of its type."""
    t = exp.get("typ")
    if isinstance(got_default, (str, type(None))) and got_default in NONE_ALIASES:
        return True
    if t is None:  # no type given: argparse's own fallback type is str, whose zero value is ''
        return got_default == ""
    if t.startswith("Optional["):
        return False
    if t in domain.MIXED_UNIONS:  # falls back to str, whose zero value is ''
        return got_default == ""
    # the "type" of an option is the scalar argparse converts with: the element type of List[..] / the type of the
    # Literal members
    names = domain.type_names(t)
    scal = [n for n in ("str", "int", "float", "bool") if n in names]
    if "Literal" in names and not scal:
        import ast as _ast

        scal = list({type(n.value).__name__ for n in _ast.walk(_ast.parse(t, mode="eval")) if isinstance(n, _ast.Constant)})
    return len(scal) == 1 and scal[0] in ZERO and type(got_default) is type(ZERO[scal[0]]) and got_default == ZERO[scal[0]]


def _type_map(et, exp):
    """Documented normalisation: what argparse cannot express falls back to str (here: a parameter without any type)."""
    if et is None:
        return {None, "str", "Optional[str]"}
    if et in domain.MIXED_UNIONS and not exp.get("_is_return"):  # not expressible (a return type is only ever text): str (not one of the scalars the type happens to mention)
        return {"Optional[str]"} if et.startswith("Optional[") else {"str"}
    return {et}


POLICY = Policy(absent_default_ok=_zero_ok, returns="if_default", type_map=_type_map)


def run_case(case):
    cir = case["ir"]
    names = set()
    for p in cir["params"]:
        names |= domain.type_names(p.get("typ") or "int")
    seen, gap = False, False
    for p in cir["params"]:
        if "default" in p:
            seen = True
        elif seen:
            gap = True
    nontrivial = ("Literal" in names and ({"Optional", "List"} & names)) or gap or any("default" in p for p in cir["params"])
    return irprops.roundtrip(case, KIND, POLICY, bool(nontrivial))
