"""C06 Emitted code is valid Python that behaves as the IR says (judged by CPython, not by doctrans' parsers)."""
import argparse
import ast
import inspect
import os
import shutil
import sys
import tempfile

from hypothesis import strategies as st

from .. import domain, interp, kinds
from ..oracle import ZERO, ast_norm, strip_code, ws, split_default_sentence
from ..runner import CaseResult, Disc, raise_disc
from . import c02, c03, c04

PID = "C06"
LEVEL = "exploration"
RULE = (
    "cases = generated interface description x kind in {class, function, method, argparse} x every emitter option "
    "(drawn); four layers judged by CPython: (1) compile(to_code(node)); (2) ast of re-parsed text == ast of the node; (3) "
    "emit.file with and without black, re-read, same ast (every 4th case); (4) exec the text with symbolic stand-ins for "
    "np/tf/... and compare with a reference mapping written from the property text: class __dict__ values and "
    "__annotations__ (names, order, evaluated defaults, evaluated types); inspect.signature (names, order, kinds, "
    "defaults, annotations, **kwargs, return annotation); the argparse function applied to a real ArgumentParser "
    "(description, option names/order, type, choices, action class, required, default, help). distinct = canonical-JSON "
    "hash; non-trivial = >=3 parameters, mixed defaulted/non-defaulted, >=1 generic type"
)
ASSUMPTIONS = [
    "np, tf, Optimizer, stdout ... are symbolic stand-ins (structural equality on the expression they were built from)",
    "an absent default may be None (functions) or the zero value / None (class, argparse): readings fixed in DESIGN.md section 3",
]
SRC = {"class": c02, "function": c03, "method": c03, "argparse": c04}
CORE_ALLOWED = ()
_F = []
for _k in kinds.CODE_KINDS:
    for _knob in SRC[_k].FRONTIER_KNOBS:
        if not _knob.startswith("cfg:"):
            _F.append("%s|%s" % (_k, _knob))
FRONTIER_KNOBS = tuple(_F)
FLOORS = {"kind=class": 0.05, "kind=argparse": 0.05, "kind=function": 0.05, "kind=method": 0.05}


def budgets(tier):
    if tier == "quick":
        return {"core": 2400, "frontier": 16, "shards": 4}
    return {"core": 16 * 4000, "frontier": 16 * 60, "shards": 16}


def mod():
    return sys.modules[__name__]


def _kind_strategy(kind, mode, knob):
    src = SRC[kind]
    kw = {}
    if kind == "argparse":
        kw = dict(argparse_only=True, base_exclude=())
    ir = domain.ir_strategy(allowed=tuple(src.CORE_ALLOWED), forced=knob if mode == "frontier" else None, **kw)
    return st.builds(lambda i, o, f: {"kind": kind, "ir": i, "opts": o, "file_layer": f == 0}, ir, kinds.opts_strategy(kind),
                     st.integers(0, 3))


def strategy(mode, knob=None):
    if mode == "frontier":
        kind, k = knob.split("|")
        return _kind_strategy(kind, mode, k)
    return st.sampled_from(kinds.CODE_KINDS).flatmap(lambda kind: _kind_strategy(kind, "core", None))


def valid(case):
    return (isinstance(case, dict) and set(case) == {"kind", "ir", "opts", "file_layer"} and case["kind"] in kinds.CODE_KINDS
            and domain.valid_ir(case["ir"]) and kinds.valid_opts(case["kind"], case["opts"]) and isinstance(case["file_layer"], bool))


# ----------------------------------------------------------------------------- reference mapping (from the property text)
def exp_default(ns, p):
    d = p["default"]
    if d is None:
        return None
    if domain.is_code(d):
        return interp.eval_in(ns, strip_code(d))
    return d


def same_value(a, b):
    return type(a) is type(b) and a == b


def absent_ok(p, got, allow_zero):
    if got is None:
        return True
    t = p.get("typ")
    return allow_zero and t in ZERO and same_value(ZERO[t], got)


def check_class(cir, ns, discs, per):
    cls = ns.get(kinds.CLASS_NAME)
    if not inspect.isclass(cls):
        discs.append(Disc("exec:class-missing", kinds.CLASS_NAME, "no class %s after exec" % kinds.CLASS_NAME))
        return
    want = [p["name"] for p in cir["params"]] + (["return_type"] if cir.get("returns") else [])
    attrs = [k for k in cls.__dict__ if not (k.startswith("__") and k.endswith("__"))]
    ann = cls.__dict__.get("__annotations__", {})
    if attrs != want:
        discs.append(Disc("class:attributes", "", "expected attributes %r, class has %r" % (want, attrs)))
    entries = list(cir["params"]) + ([dict(cir["returns"], name="return_type")] if cir.get("returns") else [])
    for p in entries:
        n = p["name"]
        pt = per.get(n, ())
        if n not in cls.__dict__:
            continue
        got = cls.__dict__[n]
        if "default" in p:
            try:
                e = exp_default(ns, p) if n != "return_type" else interp.eval_in(ns, strip_code(p["default"]))
            except Exception as ex:
                raise HarnessBad("cannot evaluate expected default %r: %s" % (p["default"], ex))
            if not same_value(e, got):
                discs.append(Disc("class:value", n, "expected %r (%s) got %r (%s)" % (e, type(e).__name__, got, type(got).__name__), pt))
        elif not absent_ok(p, got, True):
            discs.append(Disc("class:value-invented", n, "no default in the description, attribute is %r" % (got,), pt))
        if "typ" in p:
            if n not in ann:
                discs.append(Disc("class:annotation-missing", n, "expected %s" % p["typ"], pt))
            elif not interp.ann_equal(interp.eval_in(ns, p["typ"]), ann[n]):
                discs.append(Disc("class:annotation", n, "expected %s got %r" % (p["typ"], ann[n]), pt))
        elif n in ann and ann[n] is not None:
            discs.append(Disc("class:annotation-invented", n, "no type in the description, annotation is %r" % (ann[n],), pt))


def check_function(cir, opts, ns, discs, per):
    f = ns.get(kinds.FUNC_NAME)
    if not inspect.isfunction(f):
        discs.append(Disc("exec:function-missing", kinds.FUNC_NAME, "no function after exec"))
        return
    sig = inspect.signature(f)
    got = list(sig.parameters.values())
    first = [] if opts["function_type"] == "static" else [opts["function_type"]]
    want = first + [p["name"] for p in cir["params"]]
    if [g.name for g in got] != want:
        discs.append(Disc("signature:names", "", "expected %r got %r" % (want, [g.name for g in got])))
        return
    for p, g in zip(cir["params"], got[len(first):]):
        n, pt = p["name"], per.get(p["name"], ())
        if n.endswith("kwargs"):
            if g.kind is not inspect.Parameter.VAR_KEYWORD:
                discs.append(Disc("signature:kwargs-kind", n, "expected **%s, got kind %s" % (n, g.kind), pt))
            continue
        want_kind = inspect.Parameter.KEYWORD_ONLY if opts["emit_as_kwonlyargs"] else inspect.Parameter.POSITIONAL_OR_KEYWORD
        if g.kind is not want_kind:
            discs.append(Disc("signature:kind", n, "expected %s got %s" % (want_kind, g.kind), pt))
        if "default" in p:
            e = exp_default(ns, p)
            if g.default is inspect.Parameter.empty or not same_value(e, g.default):
                discs.append(Disc("signature:default", n, "expected %r (%s) got %r" % (e, type(e).__name__, g.default), pt))
        elif g.default is not inspect.Parameter.empty and g.default is not None:
            discs.append(Disc("signature:default-invented", n, "no default in the description, signature has %r" % (g.default,), pt))
        if opts["inline_types"] and "typ" in p:
            if g.annotation is inspect.Parameter.empty or not interp.ann_equal(interp.eval_in(ns, p["typ"]), g.annotation):
                discs.append(Disc("signature:annotation", n, "expected %s got %r" % (p["typ"], g.annotation), pt))
        elif g.annotation is not inspect.Parameter.empty:
            discs.append(Disc("signature:annotation-invented", n, "expected none got %r" % (g.annotation,), pt))
    if any(g.kind is inspect.Parameter.VAR_KEYWORD for g in got) != any(p["name"].endswith("kwargs") for p in cir["params"]):
        discs.append(Disc("signature:kwargs-presence", "", str(sig)))
    r = cir.get("returns") or {}
    if opts["inline_types"] and "typ" in r:
        if sig.return_annotation is inspect.Signature.empty or not interp.ann_equal(interp.eval_in(ns, r["typ"]), sig.return_annotation):
            discs.append(Disc("signature:return-annotation", "return", "expected %s got %r" % (r["typ"], sig.return_annotation)))
    elif sig.return_annotation is not inspect.Signature.empty:
        discs.append(Disc("signature:return-annotation-invented", "return", repr(sig.return_annotation)))


def _arg_type(typ):
    if typ in domain.MIXED_UNIONS:
        return "str"  # a scalar mixed with a name argparse knows nothing about: the documented fallback, not the scalar
    names = domain.type_names(typ or "str")
    for s in ("int", "float", "bool", "str"):
        if s in names:
            return s
    return "str"


def check_argparse(cir, opts, ns, discs, per):
    f = ns.get(kinds.ARGPARSE_NAME)
    if not inspect.isfunction(f):
        discs.append(Disc("exec:function-missing", kinds.ARGPARSE_NAME, "no function after exec"))
        return
    parser = argparse.ArgumentParser(prog="x")
    try:
        res = f(parser)
    except Exception as e:
        discs.append(Disc("argparse:run-raises:%s" % type(e).__name__, "", str(e)[:200]))
        return
    if (res[0] if isinstance(res, tuple) else res) is not parser:
        discs.append(Disc("argparse:return", "", "function does not return the parser: %r" % (res,)))
    if ws(parser.description or "") != ws(cir["doc"]):
        discs.append(Disc("argparse:description", "", "expected %r got %r" % (cir["doc"], parser.description)))
    table = interp.action_table(parser)
    want = ["--" + p["name"] for p in cir["params"]]
    if list(table) != want:
        discs.append(Disc("argparse:options", "", "expected %r got %r" % (want, list(table))))
    for p in cir["params"]:
        n, pt = p["name"], per.get(p["name"], ())
        a = table.get("--" + n)
        if a is None:
            continue
        typ = p.get("typ")
        names = domain.type_names(typ) if typ else set()
        if n.endswith("kwargs"):
            if a.required:
                discs.append(Disc("argparse:required", n, "kwargs option must not be required", pt))
            continue
        s = _arg_type(typ)
        want_types = {"int": (int,), "float": (float,), "bool": (bool,), "str": (None, str)}[s]
        if "Literal" in names:
            lits = _literal_members(typ)
            if tuple(a.choices or ()) != tuple(lits) or [type(x) for x in (a.choices or ())] != [type(x) for x in lits]:
                discs.append(Disc("argparse:choices", n, "expected %r got %r" % (tuple(lits), a.choices), pt))
            kinds_ = {type(x) for x in lits}
            if len(kinds_) == 1 and kinds_ <= {int, float} and a.type not in kinds_:
                # numeric choices are only reachable from the command line when the option converts its argument
                discs.append(Disc("argparse:type", n, "choices %r need type=%s, got %r" % (tuple(lits), next(iter(kinds_)).__name__, a.type), pt))
        else:
            if typ is not None and a.type not in want_types:
                discs.append(Disc("argparse:type", n, "expected %s got %r" % (s, a.type), pt))
            if a.choices is not None:
                discs.append(Disc("argparse:choices-invented", n, repr(a.choices), pt))
        is_append = isinstance(a, argparse._AppendAction)
        if ("List" in names) != is_append:
            discs.append(Disc("argparse:action", n, "List in type: %s, append action: %s" % ("List" in names, is_append), pt))
        want_required = "Optional" not in names
        if typ is not None and bool(a.required) != want_required:  # without a type the description says nothing about optionality
            discs.append(Disc("argparse:required", n, "expected required=%s got %s (type %s)" % (want_required, a.required, typ), pt))
        if "default" in p:
            e = exp_default(ns, p)
            if not same_value(e, a.default):
                discs.append(Disc("argparse:default", n, "expected %r (%s) got %r (%s)" % (e, type(e).__name__, a.default, type(a.default).__name__), pt))
        elif not absent_ok(dict(p, typ=s), a.default, True):
            discs.append(Disc("argparse:default-invented", n, "no default in the description, option default %r" % (a.default,), pt))
        if "doc" in p:
            head, _ = split_default_sentence(a.help or "")
            if ws(head).rstrip(".") != ws(split_default_sentence(p["doc"])[0]).rstrip("."):
                discs.append(Disc("argparse:help", n, "expected %r got %r" % (p["doc"], a.help), pt))
        elif a.help:
            discs.append(Disc("argparse:help-invented", n, repr(a.help), pt))


class HarnessBad(Exception):
    pass


def _docstring_only_diff(a_src_node, b_src):
    """True iff the two trees differ only in docstring constants modulo whitespace."""
    def strip(tree):
        for node in ast.walk(tree):
            if isinstance(node, (ast.FunctionDef, ast.ClassDef, ast.Module)) and node.body and isinstance(node.body[0], ast.Expr) \
                    and isinstance(node.body[0].value, ast.Constant) and isinstance(node.body[0].value.value, str):
                node.body[0].value.value = ws(node.body[0].value.value)
        return ast.dump(tree)
    return strip(ast.parse(a_src_node)) == strip(ast.parse(b_src))


def _literal_members(typ):
    """Members of the (first) Literal[...] inside a type string, in source order, signs included."""
    for node in ast.walk(ast.parse(typ, mode="eval")):
        if isinstance(node, ast.Subscript) and getattr(node.value, "id", None) == "Literal":
            sl = node.slice
            elts = sl.elts if isinstance(sl, ast.Tuple) else [sl]
            return [ast.literal_eval(e) for e in elts]
    return []


def run_case(case):
    from doctrans import emit
    from doctrans.source_transformer import to_code

    kind, cir, opts = case["kind"], case["ir"], case["opts"]
    tags, per = domain.tags_of(cir)
    tags |= {"kind=" + kind} | {"%s=%s" % kv for kv in opts.items()} | {"file_layer=%s" % case["file_layer"]}
    per = {p["name"]: t for p, t in zip(cir["params"], per)}
    plain = [p for p in cir["params"] if not p["name"].endswith("kwargs")]
    nontrivial = len(plain) >= 3 and any("default" in p for p in plain) and any("default" not in p for p in plain) and any(
        "[" in (p.get("typ") or "") for p in plain)
    try:
        node = kinds.emit_node(kind, domain.to_ir(cir), opts)
        src = to_code(node)
    except Exception as e:
        return CaseResult([raise_disc(e, "emit")], tags, nontrivial, "emit raised")
    discs = []
    # layer 1
    try:
        compile(src, "<emitted>", "exec")
    except SyntaxError as e:
        return CaseResult([Disc("compile:SyntaxError", "text", "%s in %r" % (e, src[:300]))], tags, nontrivial, "does not compile")
    # layer 2
    if ast.dump(ast.parse(src)) != ast.dump(ast.parse(ast.unparse(ast.parse(src)))):
        discs.append(Disc("reparse:unstable", "text", "unparse(parse(text)) differs from text's tree"))
    # layer 3
    if case["file_layer"]:
        d = tempfile.mkdtemp(prefix="c06_")
        try:
            for skip_black in (True, False):
                fn = os.path.join(d, "m_%s.py" % skip_black)
                try:
                    emit.file(node, fn, mode="wt", skip_black=skip_black)
                    with open(fn) as fh:
                        back = fh.read()
                    if ast.dump(ast.parse(back)) != ast.dump(ast.parse(src)):
                        if not skip_black and _docstring_only_diff(src, back):
                            discs.append(Disc("file:docstring-reindented", "black", "black changed the docstring constant (whitespace only)"))
                        else:
                            discs.append(Disc("file:ast-differs:%s" % ("plain" if skip_black else "black"), "file", back[:300]))
                except Exception as e:
                    discs.append(raise_disc(e, "file:%s" % ("plain" if skip_black else "black")))
            # append mode (the default of emit.file): onto a file that ends without a newline (what the plain write above
            # leaves behind) and onto one that ends with one; both definitions must be in the file, one after the other
            for first_plain in (True, False):
                for skip_black in (True, False):
                    fn = os.path.join(d, "a_%s_%s.py" % (first_plain, skip_black))
                    try:
                        emit.file(node, fn, mode="wt", skip_black=first_plain)
                        emit.file(node, fn, mode="a", skip_black=skip_black)
                        with open(fn) as fh:
                            back = fh.read()
                        try:
                            n_defs = len(ast.parse(back).body)
                        except SyntaxError as e:
                            discs.append(Disc("file:append-unparsable", "file", "%s: %r" % (e, back[-200:])))
                            continue
                        if n_defs != 2:
                            discs.append(Disc("file:append-count", "file", "%d top-level statements after appending the second definition" % n_defs))
                    except Exception as e:
                        discs.append(raise_disc(e, "file:append"))
        finally:
            shutil.rmtree(d, ignore_errors=True)
    # layer 4
    try:
        ns = interp.run_source(src)
    except Exception as e:
        discs.append(Disc("exec:raises:%s" % type(e).__name__, "text", "%s in %r" % (e, src[:300])))
        return CaseResult(discs, tags, nontrivial, "exec raised")
    try:
        if kind == "class":
            check_class(cir, ns, discs, per)
        elif kind == "argparse":
            check_argparse(cir, opts, ns, discs, per)
        else:
            check_function(cir, opts, ns, discs, per)
    except HarnessBad as e:
        from .. import env

        raise env.HarnessError(str(e))
    return CaseResult(discs, tags, nontrivial, "%s: %s" % (kind, "ok" if not discs else "; ".join(d.aspect for d in discs[:4])))
