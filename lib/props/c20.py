"""C20 Rejected or failing invocations never damage source files."""
import ast
import contextlib
import io
import os
import shutil
import subprocess
import sys
import tempfile

from hypothesis import strategies as st

from .. import domain, env, project
from ..runner import CaseResult, Disc, case_hash, raise_disc
from . import c09

PID = "C20"
LEVEL = "fault_enumeration"
RULE = (
    "two families. (inputs) generated projects x the matrix of argument combinations of the three sub-commands through "
    "main(argv) in process (and a few real `python -m doctrans` processes): rejected combinations (truth file missing, fewer "
    "than two files, input or output file missing, gen output existing) must end in a non-zero exit / error with the directory "
    "snapshot (names + bytes) identical; accepted combinations must run without an internal error. (fault sequences / crash "
    "points) for each multi-file operation (sync creating + replacing + appending targets, sync_properties, gen) a dry run "
    "records the write-mode open() calls doctrans makes (module attribute `open` shadowing the builtin); then EVERY such call "
    "x fault kind in {OSError before open, OSError on the first write after open, half the data written then OSError} is "
    "replayed, plus a fault in the conversion of the k-th target (emitter raising). Oracle: afterwards every file is "
    "byte-identical to its pre-state or byte-identical to what the fault-free run wrote - never truncated, partial or "
    "unparseable. evaluations = invocations; distinct = (project, combination / crash point); non-trivial = operation "
    "touching >=2 files with the fault on the second or later write, or a rejected combination"
)
ASSUMPTIONS = ["a crash is an exception at a Python I/O call boundary (not power loss; nothing is claimed about fsync)",
               "'usage error' = non-zero exit / exception with a message; the exact status is not part of the verdict (reading 6)"]
CORE_ALLOWED = c09.CORE_ALLOWED
FRONTIER_KNOBS = ()
FLOORS = {}
KEYS = project.KIND_KEYS
FAULTS = ("before_open", "first_write", "partial_write")


def budgets(tier):
    if tier == "quick":
        return {"core": 48, "frontier": 0, "shards": 4}
    return {"core": 16 * 30, "frontier": 0, "shards": 16}


def mod():
    return sys.modules[__name__]


@st.composite
def _case(draw, knob):
    part = draw(st.sampled_from(("args", "faults")))
    base = {"ir": draw(c09._ir()), "stale_ir": draw(c09._ir()), "truth": draw(st.sampled_from(KEYS))}
    if part == "args":
        return dict(base, part="args", subprocess=draw(st.integers(0, 7)) == 0)
    op = draw(st.sampled_from(("sync", "sync", "sync_properties", "gen")))
    return dict(base, part="faults", op=op, gen_type=draw(st.sampled_from(("class", "function", "argparse"))))


def strategy(mode, knob=None):
    return _case(knob)


def valid(case):
    try:
        return (isinstance(case, dict) and domain.valid_ir(case["ir"]) and domain.valid_ir(case["stale_ir"]) and case["truth"] in KEYS
                and case["part"] in ("args", "faults"))
    except Exception:
        return False


# ----------------------------------------------------------------------------- helpers
def run_main(argv):
    """main(argv) in process -> (status, message): status 0 ok, 'exit:N' SystemExit, 'raise:Type' exception."""
    from doctrans.__main__ import main

    err = io.StringIO()
    try:
        with contextlib.redirect_stdout(io.StringIO()), contextlib.redirect_stderr(err):
            main(argv)
        return 0, ""
    except SystemExit as e:
        return ("exit:%s" % e.code) if e.code not in (0, None) else 0, err.getvalue()[-300:]
    except KeyboardInterrupt:
        raise
    except BaseException as e:
        return "raise:%s:%s" % (type(e).__name__, __import__("lib.runner", fromlist=["exc_site"]).exc_site(e)), str(e)[:300]


def build_sync_project(case, d, states):
    base = {"ir": case["ir"], "stale_ir": case["stale_ir"], "truth": case["truth"], "method": False, "nested": False,
            "states": {k: states.get(k) for k in KEYS if k != case["truth"]}}
    paths, gold, _ = c09.setup_project(dict(base), d)
    return paths


def sync_argv(paths, truth, kinds_given, names=True):
    flag = {"argparse_function": "--argparse-function", "class": "--class", "function": "--function"}
    argv = ["sync", "--truth", truth]
    for k in kinds_given:
        argv += [flag[k], paths[k]]
    if names:
        for k in KEYS:
            argv += [flag[k] + "-name", project.NAMES[k]]
    return argv


# ----------------------------------------------------------------------------- family 1: argument combinations
def run_args(case, tags):
    discs, subcases = [], []
    evals = 0
    d = tempfile.mkdtemp(prefix="c20a_")
    try:
        others = [k for k in KEYS if k != case["truth"]]
        states = {others[0]: "stale", others[1]: "agreeing"}
        paths = build_sync_project(case, d, states)
        truth = case["truth"]
        missing = os.path.join(d, "does_not_exist.py")
        combos = []
        # --- sync
        combos.append(("sync:truth-file-missing", sync_argv(dict(paths, **{truth: missing}), truth, KEYS), "reject"))
        combos.append(("sync:one-file", sync_argv(paths, truth, [truth]), "reject"))
        flag = {"argparse_function": "--argparse-function", "class": "--class", "function": "--function"}[truth]
        combos.append(("sync:first-truth-file-missing", ["sync", "--truth", truth, flag, missing] + sync_argv(paths, truth, KEYS)[3:], "reject"))
        combos.append(("sync:no-file", ["sync", "--truth", truth], "reject"))
        combos.append(("sync:truth-kind-not-given", sync_argv(paths, truth, others), "reject"))
        combos.append(("sync:three-kinds", sync_argv(paths, truth, KEYS), "accept"))
        combos.append(("sync:two-kinds", sync_argv(paths, truth, [truth, others[0]]), "accept"))
        combos.append(("sync:two-kinds-without-names-of-third", sync_argv(paths, truth, [truth, others[0]], names=False)
                       + sum(([{"argparse_function": "--argparse-function-name", "class": "--class-name", "function": "--function-name"}[k], project.NAMES[k]]
                              for k in (truth, others[0])), []), "accept"))
        # --- sync_properties
        inp, outp = os.path.join(d, "sp_in.py"), os.path.join(d, "sp_out.py")
        with open(inp, "w") as f:
            f.write("class Src(object):\n    attr: int = 1\n\n\ndef g(a: str, b=2):\n    pass\n")
        with open(outp, "w") as f:
            f.write("class Dst(object):\n    attr: float = 2.0\n\n\ndef h(a: bytes, c=3):\n    pass\n")
        sp = lambda i, o, ip="Src.attr", op="Dst.attr": ["sync_properties", "--input-filename", i, "--input-param", ip, "--output-filename", o, "--output-param", op]
        combos.append(("sync_properties:input-missing", sp(missing, outp), "reject"))
        combos.append(("sync_properties:output-missing", sp(inp, missing), "reject"))
        combos.append(("sync_properties:attr", sp(inp, outp), "accept"))
        combos.append(("sync_properties:arg", sp(inp, outp, "g.a", "h.a"), "accept"))
        combos.append(("sync_properties:no-params", ["sync_properties", "--input-filename", inp, "--output-filename", outp], "reject"))
        # --- gen
        with open(os.path.join(d, "c20gen_in.py"), "w") as f:
            f.write("def beta(a: int = 1, b: str = 'q'):\n    \"\"\"\n    Beta\n\n    :param a: first\n\n    :param b: second\n    \"\"\"\n    pass\n\n\nMAPPING = {'beta': beta}\n")
        existing = os.path.join(d, "gen_existing.py")
        with open(existing, "w") as f:
            f.write("# precious\n")
        g = lambda out, t="argparse": ["gen", "--name-tpl", "{name}Config", "--input-mapping", "c20gen_in.MAPPING", "--type", t, "-o", out]
        combos.append(("gen:output-exists", g(existing), "reject"))
        combos.append(("gen:bad-type", g(os.path.join(d, "gen_new0.py"), "nonsense"), "reject"))
        for t in ("argparse", "class", "function"):
            combos.append(("gen:%s" % t, g(os.path.join(d, "gen_new_%s.py" % t), t), "accept"))
            combos.append(("gen:%s:prepend-docstring" % t, g(os.path.join(d, "gen_doc_%s.py" % t), t) + ["--prepend", '"""Generated module."""\\nPRE = 1\\n'], "accept"))
            combos.append(("gen:%s:imports-from-file" % t, g(os.path.join(d, "gen_imp_%s.py" % t), t) + ["--imports-from-file", "c20gen_in"], "accept"))
        # --- the same files under other spellings (HOME and the working directory are the project directory)
        os.symlink(existing, os.path.join(d, "gen_link.py"))
        tilde = lambda pth: "~/" + os.path.basename(pth)
        combos.append(("gen:output-exists:tilde", g(tilde(existing)), "reject"))
        combos.append(("gen:output-exists:relative", g(os.path.basename(existing)), "reject"))
        combos.append(("gen:output-exists:symlink", g(os.path.join(d, "gen_link.py")), "reject"))
        combos.append(("sync:truth-file-missing:tilde", sync_argv(dict(paths, **{truth: tilde(missing)}), truth, KEYS), "reject"))
        combos.append(("sync:three-kinds:tilde", sync_argv({k: tilde(v) for k, v in paths.items()}, truth, KEYS), "accept"))
        combos.append(("sync:three-kinds:relative", sync_argv({k: os.path.basename(v) for k, v in paths.items()}, truth, KEYS), "accept"))
        combos.append(("sync_properties:input-missing:tilde", sp(tilde(missing), outp), "reject"))
        # --- a directory where a file is expected
        adir = os.path.join(d, "a_package")
        os.mkdir(adir)
        combos.append(("sync:truth-is-directory", sync_argv(dict(paths, **{truth: adir}), truth, KEYS), "reject"))
        combos.append(("sync_properties:input-is-directory", sp(adir, outp), "reject"))
        combos.append(("sync_properties:output-is-directory", sp(inp, adir), "reject"))
        sys.path.insert(0, d)
        old_home, old_cwd = os.environ.get("HOME"), os.getcwd()
        os.environ["HOME"] = d
        os.chdir(d)
        try:
            for label, argv, expect in combos:
                before = project.snapshot(d)
                sys.modules.pop("c20gen_in", None)
                status, msg = run_main(argv)
                evals += 1
                after = project.snapshot(d)
                subcases.append((case_hash([case["ir"], case["truth"], label]), expect == "reject"))
                tags.add("combo=" + label)
                ctx = set(tags) | {"combo=" + label, "expect=" + expect}
                if expect == "reject":
                    if status == 0:
                        discs.append(Disc("rejected:accepted", label, "exit status 0 for %r" % argv[:6], (), ctx))
                    elif isinstance(status, str) and status.startswith("raise:") and not status.startswith(("raise:OSError", "raise:IOError", "raise:FileExistsError", "raise:FileNotFoundError")):
                        discs.append(Disc("rejected:internal-error:%s" % status, label, msg, (), ctx))
                    if before != after:
                        ch = sorted(n for n in set(before) | set(after) if before.get(n) != after.get(n))
                        discs.append(Disc("rejected:filesystem-changed", label, "changed: %r" % ch, (), ctx))
                else:
                    if status != 0:
                        discs.append(Disc("accepted:%s" % status, label, msg, (), ctx))
                    for n, data in after.items():
                        if n.endswith(".py") and n not in before and not data.strip():
                            discs.append(Disc("accepted:empty-file", "%s:%s" % (label, n), "a new, empty file was left behind", (), ctx))
                        if n.endswith(".py"):
                            try:
                                ast.parse(data.decode())
                            except SyntaxError as e:
                                discs.append(Disc("accepted:unparsable-file", "%s:%s" % (label, n), str(e), (), ctx))
            if case.get("subprocess"):
                # the real command line: exit status of a rejected and of an accepted invocation
                e = dict(os.environ, PYTHONPATH=env.REPO + os.pathsep + d, PYTHONDONTWRITEBYTECODE="1", PYTHONHASHSEED="0")
                for label, argv, want_zero in (("subprocess:sync:one-file", sync_argv(paths, truth, [truth]), False),
                                               ("subprocess:sync:three-kinds", sync_argv(paths, truth, KEYS), True),
                                               ("subprocess:version", ["--version"], True)):
                    before = project.snapshot(d)
                    p = subprocess.run([sys.executable, "-m", "doctrans"] + argv, cwd=d, env=e, stdout=subprocess.PIPE, stderr=subprocess.PIPE, timeout=300)
                    evals += 1
                    tags.add("combo=" + label)
                    ctx = set(tags) | {"combo=" + label}
                    if (p.returncode == 0) != want_zero:
                        discs.append(Disc("subprocess:exit-status", label, "exit %d, stderr %r" % (p.returncode, p.stderr.decode()[-300:]), (), ctx))
                    if not want_zero and project.snapshot(d) != before:
                        discs.append(Disc("rejected:filesystem-changed", label, "real process changed the directory", (), ctx))
        finally:
            os.chdir(old_cwd)
            if old_home is None:
                os.environ.pop("HOME", None)
            else:
                os.environ["HOME"] = old_home
            if d in sys.path:
                sys.path.remove(d)
            sys.modules.pop("c20gen_in", None)
    finally:
        shutil.rmtree(d, ignore_errors=True)
    return discs, subcases, evals


# ----------------------------------------------------------------------------- family 2: fault injection
class Injector(object):
    """Shadows `open` in the doctrans modules; records write-mode opens; injects one fault."""

    MODULES = ("doctrans.emit", "doctrans.gen", "doctrans.conformance", "doctrans.sync_properties")

    def __init__(self, fault=None):
        self.fault = fault  # (write-open index, kind) or None
        self.write_opens = []
        self.fired = False

    def _open(self, file, mode="r", *a, **k):
        inj = self
        writing = any(c in mode for c in "wax+")
        if not writing:
            return open(file, mode, *a, **k)
        idx = len(self.write_opens)
        self.write_opens.append((os.path.basename(str(file)), mode))
        if self.fault and self.fault[0] == idx and self.fault[1] == "before_open":
            self.fired = True
            raise OSError(5, "injected fault before open", str(file))
        fh = open(file, mode, *a, **k)
        if not (self.fault and self.fault[0] == idx):
            return fh

        class Proxy(object):
            def __enter__(s):
                return s

            def __exit__(s, *exc):
                fh.close()
                return False

            def write(s, data):
                if not inj.fired:
                    inj.fired = True
                    if inj.fault[1] == "partial_write":
                        fh.write(data[: len(data) // 2])
                        fh.flush()
                    raise OSError(28, "injected fault during write", str(file))
                return fh.write(data)

            def __getattr__(s, n):
                return getattr(fh, n)

        return Proxy()

    def __enter__(self):
        import importlib

        self.mods = [importlib.import_module(m) for m in self.MODULES]
        for m in self.mods:
            m.open = self._open
        return self

    def __exit__(self, *exc):
        for m in self.mods:
            if "open" in vars(m):
                del m.open
        return False


def operation(case, d):
    """-> (callable running the operation in directory d, description)."""
    if case["op"] == "sync":
        others = [k for k in KEYS if k != case["truth"]]
        # three writes: the class target is replaced when stale, a missing file is created, an absent definition appended
        states = {}
        for k, s_ in zip(others, ("missing", "absent")):
            states[k] = s_
        if "class" in others:
            states["class"] = "stale"
            rest = [k for k in others if k != "class"][0]
            states[rest] = "missing"
        paths = build_sync_project(case, d, states)
        return lambda: project.run_sync(paths, case["truth"], False, list(KEYS))
    if case["op"] == "sync_properties":
        inp, outp = os.path.join(d, "sp_in.py"), os.path.join(d, "sp_out.py")
        with open(inp, "w") as f:
            f.write("class Src(object):\n    attr: int = 1\n    other: str = 's'\n\n\ndef g(a: str, b=2):\n    pass\n")
        with open(outp, "w") as f:
            f.write("KEEP = 1\n\n\nclass Dst(object):\n    attr: float = 2.0\n    other: bytes = b''\n\n\ndef h(a: bytes, c=3):\n    pass\n")
        from doctrans.sync_properties import sync_properties

        return lambda: sync_properties(input_eval=False, input_filename=inp, input_params=["Src.attr", "Src.other", "g.a"],
                                       output_filename=outp, output_params=["Dst.attr", "Dst.other", "h.a"])
    with open(os.path.join(d, "c20gen_in.py"), "w") as f:
        f.write("import os\n\n\ndef beta(a: int = 1, b: str = 'q'):\n    \"\"\"\n    Beta\n\n    :param a: first\n\n    :param b: second\n    \"\"\"\n    pass\n\n\n"
                "class Alpha(object):\n    \"\"\"\n    Alpha\n\n    :param lr: rate\n    \"\"\"\n\n    def __init__(self, lr: float = 0.5):\n        pass\n\n\nMAPPING = {'beta': beta, 'Alpha': Alpha}\n")
    from doctrans.gen import gen

    def run():
        sys.path.insert(0, d)
        sys.modules.pop("c20gen_in", None)
        try:
            with contextlib.redirect_stdout(io.StringIO()):
                gen(name_tpl="{name}Config", input_mapping="c20gen_in.MAPPING", type_=case["gen_type"],
                    output_filename=os.path.join(d, "generated.py"), imports_from_file="c20gen_in")
        finally:
            sys.path.remove(d)
            sys.modules.pop("c20gen_in", None)

    return run


def run_faults(case, tags):
    discs, subcases = [], []
    evals = 0
    root = tempfile.mkdtemp(prefix="c20f_")
    try:
        # reference: fault-free run
        d0 = os.path.join(root, "ref")
        os.mkdir(d0)
        try:
            op0 = operation(case, d0)
        except Exception:
            return [], [], 0, "setup_failed"
        pre = project.snapshot(d0)
        with Injector() as rec:
            try:
                with contextlib.redirect_stdout(io.StringIO()):
                    op0()
            except Exception:
                return [], [], 1, "fault_free_run_fails"  # judged by C09/C14/C19
        good = project.snapshot(d0)
        n_writes = len(rec.write_opens)
        tags.add("write_opens=%d" % n_writes)
        plan = [(i, kind) for i in range(n_writes) for kind in FAULTS]
        conv = []
        if case["op"] == "sync":
            conv = [("convert", k) for k in range(3)]
        # a failure while rendering / formatting the source of the k-th written file (inside emit.file)
        conv += [("render", k) for k in range(n_writes)] + [("format", k) for k in range(n_writes)]
        for fault in plan + conv:
            d = os.path.join(root, "run")
            if os.path.isdir(d):
                shutil.rmtree(d)
            os.mkdir(d)
            op = operation(case, d)
            if project.snapshot(d) != pre:
                raise env.HarnessError("project setup is not deterministic")
            evals += 1
            label = "%s:%s@%s" % (case["op"], fault[1], fault[0])
            nontriv = (isinstance(fault[0], int) and fault[0] >= 1) or (not isinstance(fault[0], int) and fault[1] >= 1)
            subcases.append((case_hash([case["ir"], case["stale_ir"], case["truth"], case["op"], case.get("gen_type"), list(fault)]), bool(nontriv)))
            ctx = set(tags) | {"op=" + case["op"], "fault=%s" % (fault[1] if isinstance(fault[0], int) else fault[0])}
            raised = None
            if fault[0] == "convert":
                raised = _run_with_conversion_fault(op, fault[1])
            elif fault[0] in ("render", "format"):
                raised = _run_with_render_fault(op, fault[0], fault[1])
                if raised == "not-reached":
                    continue
            else:
                with Injector(fault) as inj:
                    try:
                        with contextlib.redirect_stdout(io.StringIO()):
                            op()
                    except BaseException as e:
                        if isinstance(e, KeyboardInterrupt):
                            raise
                        raised = e
                if not inj.fired:
                    continue  # this run made fewer writes than the reference: nothing injected
            after = project.snapshot(d)
            if raised is None:
                discs.append(Disc("fault-swallowed", label, "the injected fault did not surface as an error", (), ctx))
            for n in sorted(set(pre) | set(good) | set(after)):
                a = after.get(n)
                if a == pre.get(n) or a == good.get(n):
                    continue
                state = "missing" if a is None else "empty" if a == b"" else "partial"
                if a is not None:
                    try:
                        ast.parse(a.decode())
                        state += ":parses"
                    except Exception:
                        state += ":unparsable"
                discs.append(Disc("damaged:%s" % state, "%s file %s" % (label, n),
                                  "neither the pre-state (%s bytes) nor the fault-free result (%s bytes): %r" % (
                                      None if pre.get(n) is None else len(pre[n]), None if good.get(n) is None else len(good[n]), (a or b"")[:120]), (), ctx))
    finally:
        shutil.rmtree(root, ignore_errors=True)
    # one discrepancy per (aspect, fault kind) is enough for bucketing
    seen, uniq = set(), []
    for dd in discs:
        k = (dd.aspect, tuple(sorted(t for t in dd.ctx if t.startswith(("fault=", "op=")))))
        if k not in seen:
            seen.add(k)
            uniq.append(dd)
    return uniq, subcases, evals, None


def _run_with_conversion_fault(op, k):
    """Make the k-th emitter call of the operation raise (a conversion error for one target)."""
    from doctrans import emit

    calls = {"n": 0}
    saved = {}

    def wrap(fn):
        def inner(*a, **kw):
            i = calls["n"]
            calls["n"] += 1
            if i == k:
                raise ValueError("injected conversion failure for target %d" % k)
            return fn(*a, **kw)

        inner.__name__ = fn.__name__
        return inner

    for name in ("argparse_function", "class_", "function"):
        saved[name] = getattr(emit, name)
        setattr(emit, name, wrap(saved[name]))
    try:
        with contextlib.redirect_stdout(io.StringIO()):
            op()
        return None if calls["n"] > k else ValueError("not reached")
    except BaseException as e:
        if isinstance(e, KeyboardInterrupt):
            raise
        return e
    finally:
        for name, fn in saved.items():
            setattr(emit, name, fn)


def _run_with_render_fault(op, what, k):
    """Make the k-th call of to_code (render) / format_str (black) inside doctrans.emit raise."""
    from doctrans import emit

    name = "to_code" if what == "render" else "format_str"
    real = getattr(emit, name)
    calls = {"n": 0, "fired": False}

    def inner(*a, **kw):
        i = calls["n"]
        calls["n"] += 1
        if i == k:
            calls["fired"] = True
            raise ValueError("injected %s failure for written file %d" % (what, k))
        return real(*a, **kw)

    setattr(emit, name, inner)
    try:
        with contextlib.redirect_stdout(io.StringIO()):
            op()
        return None if calls["fired"] else "not-reached"
    except BaseException as e:
        if isinstance(e, KeyboardInterrupt):
            raise
        return e if calls["fired"] else "not-reached"
    finally:
        setattr(emit, name, real)


def run_case(case):
    tags = {"part=" + case["part"], "truth=" + case["truth"]}
    if case["part"] == "args":
        discs, subcases, evals = run_args(case, tags)
        note = "%d argument combinations" % evals
    else:
        tags.add("op=" + case["op"])
        discs, subcases, evals, skipped = run_faults(case, tags)
        if skipped:
            tags.add(skipped)
        note = "%s: %d crash points" % (case["op"], evals)
    return CaseResult(discs, tags, any(nt for _, nt in subcases), note, evals=max(evals, 1), subcases=subcases)


def extra_coverage(coll):
    return {"exhaustive": True,
            "exhaustive_scope": "for every explored operation: every write-mode open() call x 3 fault kinds, and every target's conversion for sync"}
