"""C05 Any-to-any convertibility preserves the interface."""
import itertools
import sys

from hypothesis import strategies as st

from .. import domain, kinds
from ..oracle import Policy, compare_ir, none_ok, zero_or_none_ok
from ..runner import CaseResult, Disc, raise_disc
from . import c01, c02, c03, c04

PID = "C05"
LEVEL = "exploration"
ALSO_FINDINGS_OF = ("C01", "C02", "C03", "C04")
RULE = (
    "cases = a pair of generated descriptions (one over the general type grammar for chains without argparse, one over the "
    "argparse-expressible grammar for chains through argparse; every parameter has distinct prose and a distinct default) "
    "x EVERY ordered pair (42) and EVERY length-3 chain (210) over {rest,numpydoc,google,class,function,method,argparse}, "
    "enumerated per generated input. Each hop emit_k -> text -> parse_k is judged on its own against the description that "
    "ENTERED it under kind k's policy (the C01-C04 policies) and attributed by that description's shape; a chain whose "
    "every hop is clean must also satisfy the end-to-end relation (names/order exact; type, prose, default equal to the "
    "original or a documented loss of a kind on the chain; nothing invented, nothing swapped). evaluations = hops run; "
    "distinct = canonical-JSON hash of the generated pair; non-trivial = >=3 parameters with >=2 explicit defaults"
)
ASSUMPTIONS = ["default emitter options per kind (default text on for docstrings, off for code kinds)",
               "documented losses per kind are the C01-C04 policies"]
KINDS = kinds.KINDS
PAIRS = [c for c in itertools.permutations(KINDS, 2)]
TRIPLES = [c for c in itertools.product(KINDS, repeat=3) if c[0] != c[1] and c[1] != c[2]]
_CORE_GENERAL = tuple(k for k in c01.CORE_ALLOWED if k in c02.CORE_ALLOWED and k in c03.CORE_ALLOWED)
_CORE_ARGPARSE = tuple(k for k in _CORE_GENERAL if k in c04.CORE_ALLOWED)
CORE_ALLOWED = _CORE_GENERAL
FRONTIER_KNOBS = ()
FLOORS = {"has_default": 0.5}
OWNER = {"rest": "C01", "numpydoc": "C01", "google": "C01", "class": "C02", "function": "C03", "method": "C03", "argparse": "C04"}
POLICY = {"rest": Policy(), "numpydoc": Policy(), "google": Policy(), "class": c02.POLICY, "function": c03.POLICY,
          "method": c03.POLICY, "argparse": c04.POLICY}
_CFG = {"triples_per_ir": 210}

UNIQ = ("zeroth", "first", "second", "third", "fourth", "fifth", "sixth")


def budgets(tier):
    if tier == "quick":
        return {"core": 64, "frontier": 0, "shards": 4, "triples_per_ir": 210}
    return {"core": 16 * 150, "frontier": 0, "shards": 16, "triples_per_ir": 210}


def mod():
    return sys.modules[__name__]


def _distinct(ir):
    seen = set()
    for i, p in enumerate(ir["params"]):
        if "doc" in p:
            p["doc"] = "%s %s" % (p["doc"].rstrip("."), UNIQ[i % len(UNIQ)])
        if "default" in p and not isinstance(p["default"], bool) and isinstance(p["default"], int):
            while p["default"] in seen:
                p["default"] += 7
            seen.add(p["default"])
    domain.fit_width(ir)
    return ir


def strategy(mode, knob=None):
    g = domain.ir_strategy(allowed=_CORE_GENERAL, min_params=2, max_params=5).map(_distinct)
    a = domain.ir_strategy(allowed=_CORE_ARGPARSE, min_params=1, max_params=5, argparse_only=True,
                           base_exclude=()).map(_distinct)
    return st.builds(lambda x, y: {"general": x, "argparse": y}, g, a)


def valid(case):
    return isinstance(case, dict) and set(case) == {"general", "argparse"} and all(domain.valid_ir(case[k]) for k in case)


def hop_tags(kind, cur, opts):
    t, per = domain.tags_of(cur)
    if kind in kinds.DOC_KINDS:
        t |= {"style=" + kind, "edd=%s" % opts["emit_default_doc"], "ww=%s" % opts["word_wrap"], "keep=True"}
    else:
        t |= {"kind=" + ("function" if kind == "method" else kind)} | {"%s=%s" % kv for kv in opts.items()}
    return t, {p["name"]: x for p, x in zip(cur["params"], per)}


_HOP_CACHE = {}


def run_hop(kind, cur):
    """-> (discs, next description or None). Cached per (kind, description): many chains share hops."""
    key = (kind, domain_canon(cur))
    if key in _HOP_CACHE:
        return _HOP_CACHE[key]
    opts = kinds.default_opts(kind)
    tags, per = hop_tags(kind, cur, opts)
    owner = (OWNER[kind], PID)
    try:
        text = kinds.emit_text(kind, domain.to_ir(cur), opts)
    except Exception as e:
        d = raise_disc(e, "emit")
        res = ([Disc(d.aspect, "%s:%s" % (kind, d.where), d.detail, (), tags, owner)], None)
        _HOP_CACHE[key] = res
        return res
    try:
        got = kinds.parse_text(kind, text, opts)
    except Exception as e:
        d = raise_disc(e, "parse")
        res = ([Disc(d.aspect, "%s:%s" % (kind, d.where), d.detail, (), tags, owner)], None)
        _HOP_CACHE[key] = res
        return res
    discs = [Disc(d.aspect, "%s:%s" % (kind, d.where), d.detail, d.ptags, tags, owner)
             for d in compare_ir(entry_view(cur), got, hop_policy(kind), per)]
    try:
        nxt = kinds.ir_to_case(got)
        if not domain.valid_ir(nxt):
            nxt = None
    except Exception:
        nxt = None
    res = (discs, nxt)
    _HOP_CACHE[key] = res
    return res


def entry_view(cur):
    """Closure reading (DESIGN.md C05): a None default under a type that does not admit None is how the function emitter
    spells "no default"; for the comparison it counts as absent (the description fed to the emitter is unchanged)."""
    out = dict(cur, params=[])
    for p in cur["params"]:
        if "default" in p and p["default"] is None and p.get("typ") is not None and not p["name"].endswith("kwargs") \
                and "Optional" not in domain.type_names(p["typ"]):
            p = dict({k: v for k, v in p.items() if k != "default"}, _was_none=True)
        out["params"].append(p)
    return out


_HOP_POLICY = {}


def hop_policy(kind):
    if kind not in _HOP_POLICY:
        base = POLICY[kind]
        inner = base.absent_default_ok
        _HOP_POLICY[kind] = Policy(
            defaults=base.defaults, returns=base.returns, type_map=base.type_map,
            ret_absent_default_ok=base.ret_absent_default_ok,
            absent_default_ok=lambda e, g: (e.get("_was_none") and none_ok(e, g)) or (inner is not None and inner(e, g)))
    return _HOP_POLICY[kind]


def domain_canon(x):
    import json

    return json.dumps(x, sort_keys=True, default=repr)


def e2e_policy(chain):
    has_argparse = "argparse" in chain
    ok = (lambda e, g: zero_or_none_ok(e, g) or c04._zero_ok(e, g)) if has_argparse else zero_or_none_ok
    return Policy(absent_default_ok=ok, ret_absent_default_ok=zero_or_none_ok,
                  returns="if_default" if has_argparse else True,
                  type_map=c04._type_map if has_argparse else None)


def run_case(case):
    _HOP_CACHE.clear()
    tg, _ = domain.tags_of(case["general"])
    ta, _ = domain.tags_of(case["argparse"])
    tags = set(tg) | {"a:" + t for t in ta}
    n = max(len(case["general"]["params"]), len(case["argparse"]["params"]))
    nontrivial = n >= 3 and sum(1 for p in case["general"]["params"] if p.get("default") is not None) >= 2
    discs, seen = [], set()
    hops = 0
    clean_chains = 0
    chains = PAIRS + TRIPLES[: _CFG["triples_per_ir"]]
    for chain in chains:
        start = case["argparse"] if "argparse" in chain else case["general"]
        cur = start
        chain_clean = True
        for kind in chain:
            hd, nxt = run_hop(kind, cur)
            hops += 1
            for d in hd:
                k = (d.aspect, d.where)
                if k not in seen:
                    seen.add(k)
                    discs.append(d)
            if hd:
                chain_clean = False
            if nxt is None:
                cur = None
                break
            cur = nxt
        if chain_clean and cur is not None:
            clean_chains += 1
            for d in compare_ir(start, domain.to_ir(cur), e2e_policy(chain)):
                asp = "e2e:%s" % d.aspect
                k = (asp, ">".join(chain))
                if k not in seen:
                    seen.add(k)
                    discs.append(Disc(asp, ">".join(chain) + ":" + d.where, d.detail, d.ptags))
    tags |= {"chains=%d" % len(chains)}
    return CaseResult(discs, tags, nontrivial, "%d chains (%d clean end to end), %d hops" % (len(chains), clean_chains, hops), evals=hops)
