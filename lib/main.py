"""./check <ID> --tier quick|thorough [--replay FILE] [--survey]"""
import argparse
import os
import sys
import traceback

from . import env


def main(argv=None):
    ap = argparse.ArgumentParser(prog="check")
    ap.add_argument("pid")
    ap.add_argument("--tier", choices=("quick", "thorough"), default=os.environ.get("VERIF_TIER") or "quick")
    ap.add_argument("--replay")
    ap.add_argument("--survey", action="store_true", help="print the bucket table (development aid); skips minimisation")
    args = ap.parse_args(argv)
    modname = args.pid.lower()
    try:
        from . import runner

        return runner.main_check(modname, args.tier, replay=args.replay, survey=args.survey)
    except env.HarnessError as e:
        print("HARNESS-ERROR %s: %s" % (args.pid, e), file=sys.stderr)
        return 2
    except SystemExit:
        raise
    except BaseException:
        traceback.print_exc()
        print("HARNESS-ERROR %s: internal exception (see traceback)" % args.pid, file=sys.stderr)
        return 2


if __name__ == "__main__":
    sys.exit(main())
