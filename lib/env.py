"""Bootstrap: import the code under test from the working tree ($VERIF_REPO, default /repo).

Nothing is built: "rebuild from the working tree" is a fresh import in a fresh process.
"""
import os
import sys

VERIF = os.path.dirname(os.path.dirname(os.path.abspath(__file__)))
REPO = os.path.realpath(os.environ.get("VERIF_REPO", "/repo"))
# where evidence/ and found/ are written; only development tooling (mutant matrix, differential searches) redirects it
OUT = os.path.realpath(os.environ.get("VERIF_OUT", VERIF))
# The only hook guard this framework knows about; no repository hook exists (see DESIGN.md section 1).
os.environ.setdefault("DOCTRANS_VERIF", "1")


class HarnessError(Exception):
    """Raised for problems of the harness itself (exit status 2, never a VIOLATION)."""


def bootstrap():
    """Make `import doctrans` resolve to REPO and absorb the `meta` first-import failure."""
    if REPO not in sys.path[:1]:
        sys.path.insert(0, REPO)
    sys.dont_write_bytecode = True
    try:  # `meta` raises KeyError on its first import under CPython 3.12 and works afterwards
        import meta  # noqa: F401
    except Exception:
        pass
    import logging

    import doctrans

    where = os.path.realpath(os.path.dirname(doctrans.__file__))
    if not where.startswith(REPO + os.sep):
        raise HarnessError("doctrans imported from %s, expected under %s" % (where, REPO))
    logging.disable(logging.CRITICAL)
    return doctrans


def seed():
    try:
        return int(os.environ.get("VERIF_SEED", "1"))
    except ValueError:
        raise HarnessError("VERIF_SEED must be an integer")
