"""Interpreter oracle (DESIGN.md section 3): execute emitted code with symbolic stand-ins for np, tf, ... and read what
CPython itself sees (class __dict__/__annotations__, inspect.signature, argparse action table)."""
import argparse
import ast
import inspect
import json
import typing


class Sym(object):
    """Symbolic value: attribute access / call / subscript / arithmetic build a printable expression; equality is
    structural (by that expression)."""

    __slots__ = ("_e",)

    def __init__(self, e):
        object.__setattr__(self, "_e", e)

    def __getattr__(self, n):
        if n.startswith("__") and n.endswith("__"):
            raise AttributeError(n)
        return Sym("%s.%s" % (self._e, n))

    def __call__(self, *a, **k):
        args = [repr(x) for x in a] + ["%s=%r" % kv for kv in sorted(k.items())]
        return Sym("%s(%s)" % (self._e, ", ".join(args)))

    def __getitem__(self, i):
        return Sym("%s[%r]" % (self._e, i))

    def _bin(op):
        def f(self, o):
            return Sym("(%s %s %r)" % (self._e, op, o))

        return f

    __add__, __sub__, __mul__, __truediv__ = _bin("+"), _bin("-"), _bin("*"), _bin("/")

    def __eq__(self, o):
        return isinstance(o, Sym) and o._e == self._e

    def __ne__(self, o):
        return not self.__eq__(o)

    def __hash__(self):
        return hash(self._e)

    def __repr__(self):
        return self._e

    def __iter__(self):
        raise TypeError("Sym is not iterable")


class NS(dict):
    """Namespace for exec: typing names, json.loads as `loads`, Sym for anything unknown."""

    def __init__(self):
        dict.__init__(self)
        for n in ("Optional", "List", "Literal", "Union", "Tuple", "Any", "Dict", "Callable", "AnyStr"):
            self[n] = getattr(typing, n)
        self["loads"] = json.loads
        self["__builtins__"] = __builtins__
        self["__name__"] = "emitted"
        for n in ("np", "tf", "os", "Optimizer", "Model", "stdout", "foo", "pickle", "n", "x"):
            self[n] = Sym(n)

    def __missing__(self, k):
        b = self["__builtins__"]
        b = b if isinstance(b, dict) else vars(b)
        if k in b:
            return b[k]
        return Sym(k)


def run_source(src):
    ns = NS()
    exec(compile(src, "<emitted>", "exec"), ns)
    return ns


def eval_in(ns, expr):
    return eval(compile(expr, "<expr>", "eval"), ns)


def ann_equal(a, b):
    """Annotations compare as typing objects; Sym members inside typing generics compare by expression."""
    try:
        return a == b or repr(a) == repr(b)
    except Exception:
        return repr(a) == repr(b)


def action_table(parser):
    """option name -> argparse action, for the options a function registered (help/-h excluded)."""
    out = {}
    for a in parser._actions:
        if isinstance(a, argparse._HelpAction):
            continue
        for s in a.option_strings:
            out[s] = a
    return out
