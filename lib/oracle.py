"""Shared oracles (DESIGN.md section 3): IR comparator, syntax-tree equality, interpreter oracle."""
import ast
import re

from .domain import NONE_STR, is_code, param_tags
from .runner import Disc

import os as _os
STRICT_CODE = not _os.environ.get('VERIF_LAX_CODE')  # a code expression that comes back as plain text is no longer code
NONE_ALIASES = (None, "None", NONE_STR, "```None```", "(None)")

_ANNOUNCE = re.compile(r"(?is)(defaults\s+to\s|default\s+value\s+is\s|default:)")
_WS = re.compile(r"\s+")


def ws(s):
    return _WS.sub(" ", s or "").strip()


def split_default_sentence(doc):
    """-> (prose before the announcement, has_sentence). Tolerant: any of the documented phrases."""
    if doc is None:
        return None, False
    m = _ANNOUNCE.search(doc)
    if not m:
        return doc, False
    return doc[: m.start()], True


def prose_equal(expected, got, has_default=False):
    """Reading 3: whitespace runs collapse; the default sentence and the one full stop / comma-space inserted
    before it are not prose."""
    if expected is None:
        expected = ""
    if got is None:
        got = ""
    head, had = split_default_sentence(got)
    ehead, ehad = split_default_sentence(expected)  # inside a chain the entering description carries the sentence too
    if ehad:
        expected = ehead
        has_default = True
    e, g = ws(expected), ws(head)
    if ehad and e.endswith("."):
        e = e[:-1].rstrip()
    if had or has_default:
        # the full stop the renderer inserts before the sentence stays behind when the sentence is removed on parse
        return g == e or g == e + "." or (g.endswith(".") and g[:-1].rstrip() == e)
    return g == e


def ast_dump_expr(s):
    return ast.dump(ast.parse(s.strip(), mode="eval"))


def strip_code(v):
    """The expression inside ONE level of code quoting (three back-ticks); text quoted twice is a different value."""
    s = v.strip()
    if len(s) > 6 and s.startswith("```") and s.endswith("```"):
        return s[3:-3]
    return s


def types_equal(a, b, ignore_ws=False):
    if a == b:
        return True
    if a is None or b is None:
        return False
    if ignore_ws:
        a, b = re.sub(r"\s+", "", a), re.sub(r"\s+", "", b)
    try:
        return ast_dump_expr(a) == ast_dump_expr(b)
    except SyntaxError:
        return re.sub(r"\s+", "", a) == re.sub(r"\s+", "", b)


def default_equal(exp, got, as_code=False):
    """-> None if equal, else aspect suffix. as_code: both are expression text (return defaults): compare as ASTs."""
    if as_code:
        # a return default is an expression: the value 0 and the source text "0" are the same thing to return
        # (doctrans stores a constant as the value, anything else as text); None means "no default" and stays apart
        etxt = exp if isinstance(exp, str) else (repr(exp) if isinstance(exp, (bool, int, float)) else None)
        gtxt = got if isinstance(got, str) else (repr(got) if isinstance(got, (bool, int, float)) else None)
        if etxt is not None and gtxt is not None and (isinstance(exp, str) or isinstance(got, str)):
            try:
                if ast_dump_expr(strip_code(etxt)) == ast_dump_expr(strip_code(gtxt)):
                    return None
            except (SyntaxError, IndexError):
                pass
    if exp is None:
        return None if (got in NONE_ALIASES if isinstance(got, (str, type(None))) else False) else "value:None->%s" % type(got).__name__
    if is_code(exp) or (isinstance(got, str) and is_code(got)):
        if not isinstance(got, str) or not isinstance(exp, str):
            return "type:%s->%s" % ("code" if is_code(exp) else type(exp).__name__, type(got).__name__)
        if STRICT_CODE and is_code(exp) != is_code(got):
            return "type:%s->%s" % ("code" if is_code(exp) else "str", "code" if is_code(got) else "str")
        try:
            return None if ast_dump_expr(strip_code(exp)) == ast_dump_expr(strip_code(got)) else "value:code"
        except SyntaxError:
            return None if strip_code(exp) == strip_code(got) else "value:code"
    if type(exp) is not type(got):
        return "type:%s->%s" % (type(exp).__name__, type(got).__name__)
    if exp != got:
        return "value:%s" % type(exp).__name__
    return None


class Policy(object):
    """Permitted normalisations; everything else is compared exactly."""

    def __init__(self, defaults=True, absent_default_ok=None, type_map=None, returns=True, prose=True,
                 ignore_type_ws=False, summary=True, ret_absent_default_ok=None, types=True, sentence=None):
        self.defaults = defaults
        self.absent_default_ok = absent_default_ok  # f(param_dict_expected, got_default) -> bool
        self.type_map = type_map  # f(expected type or None, param) -> set of acceptable type strings (or None = any)
        self.returns = returns  # True | False | "if_default"
        self.prose = prose
        self.ignore_type_ws = ignore_type_ws
        self.summary = summary
        self.ret_absent_default_ok = ret_absent_default_ok
        self.types = types
        # the 'Defaults to ...' sentence in the parsed prose: None = either way; "removed" = the parser is one that strips
        # it (a sentence left behind is a discrepancy); "same" = present in `got` exactly when present in `expected`
        self.sentence = sentence


def _cmp_entry(prefix, name, exp, got, ptags, policy, out, is_return=False):
    where = name
    # type
    et, gt = exp.get("typ"), got.get("typ")
    if not policy.types:
        pass
    elif policy.type_map is not None:
        acceptable = policy.type_map(et, dict(exp, _is_return=True) if is_return else exp)
        if acceptable is not None and not any(types_equal(a, gt, policy.ignore_type_ws) for a in acceptable):
            out.append(Disc(prefix + ("typ:lost" if gt is None else "typ:invented" if et is None else "typ:changed"), where,
                            "expected %s got %r" % (" or ".join(sorted(repr(a) for a in acceptable)), gt), ptags))
    elif et is None and gt is not None:
        out.append(Disc(prefix + "typ:invented", where, "expected no type, got %r" % gt, ptags))
    elif et is not None and gt is None:
        out.append(Disc(prefix + "typ:lost", where, "expected %r, got none" % et, ptags))
    elif et is not None and not types_equal(et, gt, policy.ignore_type_ws):
        out.append(Disc(prefix + "typ:changed", where, "expected %r got %r" % (et, gt), ptags))
    # prose
    if policy.prose:
        ed, gd = exp.get("doc"), got.get("doc")
        if ed is None and ws(split_default_sentence(gd)[0] if gd else ""):
            out.append(Disc(prefix + "doc:invented", where, "expected no prose, got %r" % gd, ptags))
        elif ed is not None and not ws(gd or ""):
            out.append(Disc(prefix + "doc:lost", where, "expected %r, got none" % ed, ptags))
        elif ed is not None and not prose_equal(ed, gd, "default" in exp or "default" in got):
            out.append(Disc(prefix + "doc:changed", where, "expected %r got %r" % (ed, gd), ptags))
        elif policy.sentence is not None and gd:
            ghad, ehad = split_default_sentence(gd)[1], split_default_sentence(ed or "")[1]
            if (policy.sentence == "removed" and ghad and not ehad) or (policy.sentence == "same" and ghad != ehad):
                out.append(Disc(prefix + "doc:default-sentence-%s" % ("kept" if ghad else "dropped"), where, "expected %r got %r" % (ed, gd), ptags))
    # default
    if policy.defaults:
        if "default" in exp:
            if "default" not in got:
                out.append(Disc(prefix + "default:lost", where, "expected %r, got none" % (exp["default"],), ptags))
            else:
                why = default_equal(exp["default"], got["default"], as_code=is_return)
                if why is not None:
                    out.append(Disc(prefix + "default:" + why, where, "expected %r got %r" % (exp["default"], got["default"]), ptags))
        elif "default" in got:
            ok = policy.ret_absent_default_ok if is_return else policy.absent_default_ok
            if not (ok is not None and ok(exp, got["default"])):
                out.append(Disc(prefix + "default:invented", where, "expected no default, got %r" % (got["default"],), ptags))


def compare_ir(case_ir, got, policy, per_param_tags=None):
    """Two-directional comparison of the generated description with what doctrans parsed back."""
    out = []
    exp_names = [p["name"] for p in case_ir["params"]]
    got_params = got.get("params") or {}
    got_names = list(got_params)
    by_name = {p["name"]: p for p in case_ir["params"]}
    if per_param_tags is None:
        per_param_tags = {}
        prev = False
        for p in case_ir["params"]:
            per_param_tags[p["name"]] = param_tags(p, prev)
            prev = prev or ("default" in p and not p["name"].endswith("kwargs"))
    if exp_names != got_names:
        missing = [n for n in exp_names if n not in got_params]
        extra = [n for n in got_names if n not in by_name]
        for n in missing:
            out.append(Disc("names:missing", n, "expected %r got %r" % (exp_names, got_names), per_param_tags.get(n, ())))
        for n in extra:
            out.append(Disc("names:extra", n, "expected %r got %r" % (exp_names, got_names)))
        if not missing and not extra:
            out.append(Disc("names:order", "", "expected %r got %r" % (exp_names, got_names)))
    for n in exp_names:
        if n in got_params:
            _cmp_entry("", n, by_name[n], got_params[n], per_param_tags.get(n, ()), policy, out)
    # return entry
    er = case_ir.get("returns")
    gr = (got.get("returns") or {}).get("return_type") if got.get("returns") else None
    want_ret = policy.returns is True or (policy.returns == "if_default" and er and "default" in er)
    if want_ret:
        rt = set()
        if er:
            rt = {"returns"} | ({"returns_default"} if "default" in er else set()) | ({"returns_untyped"} if "typ" not in er else set()) | (
                {"returns_undocumented"} if "doc" not in er else set()) | ({"returns_plain_type"} if "typ" in er and "[" not in er["typ"] else set())
        if er and not gr:
            out.append(Disc("ret:lost", "return_type", "expected %r got %r" % (er, got.get("returns")), rt))
        elif not er and gr and policy.returns is True:
            out.append(Disc("ret:invented", "return_type", "expected none got %r" % (gr,), rt))
        elif er and gr:
            _cmp_entry("ret:", "return_type", er, gr, rt, policy, out, is_return=True)
    if policy.summary and ws(case_ir["doc"]) != ws(got.get("doc")):
        out.append(Disc("summary", "doc", "expected %r got %r" % (case_ir["doc"], got.get("doc"))))
    elif policy.summary == "lines":
        # a summary of several short lines is not a paragraph to re-flow: the lines themselves are kept
        el = [ws(l) for l in (case_ir["doc"] or "").split("\n") if ws(l)]
        gl = [ws(l) for l in (got.get("doc") or "").split("\n") if ws(l)]
        if len(el) > 1 and all(len(l) < 80 for l in el) and el != gl:
            out.append(Disc("summary:lines", "doc", "expected lines %r got %r" % (el, gl)))
    return out


# ----------------------------------------------------------------------------- syntax trees
def ast_norm(node_or_src):
    """Canonical dump: through text, so positions and the 3.12-only empty `type_params` do not matter."""
    if isinstance(node_or_src, str):
        return ast.dump(ast.parse(node_or_src))
    if isinstance(node_or_src, list):
        return [ast_norm(n) for n in node_or_src]
    return ast.dump(ast.parse(ast.unparse(ast.fix_missing_locations(node_or_src))))


def ast_equal(a, b):
    return ast_norm(a) == ast_norm(b)


# ----------------------------------------------------------------------------- zero values
ZERO = {"int": 0, "float": 0.0, "str": "", "bool": False, "complex": 0j}


def zero_or_none_ok(exp, got_default):
    """C02/C03/C05 reading 1: a parameter without default may acquire the zero value of its type, or None."""
    if isinstance(got_default, (str, type(None))) and got_default in NONE_ALIASES:
        return True
    t = exp.get("typ")
    if t in ZERO and type(got_default) is type(ZERO[t]) and got_default == ZERO[t]:
        return True
    return False


def none_ok(exp, got_default):
    return isinstance(got_default, (str, type(None))) and got_default in NONE_ALIASES
