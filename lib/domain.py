"""Generated interface descriptions (IR) - DESIGN.md section 2.1.

A *case IR* is JSON-able:
  {"doc": str,
   "params": [{"name": str, "typ"?: str, "doc"?: str, "default"?: null|int|float|bool|str}, ...],
   "returns"?: {"typ"?: str, "doc"?: str, "default"?: str}}
`default` absent = no default; null = explicit None; a str wrapped in ``` is a code expression.

Everything is built by construction.  Shapes ("knobs") are applied by *mutators* to a plain base IR; the
tags of the finished IR are recomputed from the IR itself by `tags_of`, never taken from the knobs.
"""
import ast
import re
from collections import OrderedDict

from hypothesis import strategies as st

NONE_STR = "```(None)```"

WORDS = (
    "name of the dataset to load directory where models are looked up backend engine used for training "
    "number epochs rate momentum weight decay whether shuffle batches before each pass convert arrays "
    "path log files frequency at which histograms get computed size hidden layer seed random generator "
    "optimizer loss metric callback verbose output level axis along reduce value tolerance maximum iterations"
).split()

NAMES = (
    "a", "b", "x", "y", "K", "lr", "beta_1", "dataset_name", "as_numpy", "tfds_dir", "data_loader",
    "num_epochs", "momentum", "weight_decay", "verbose", "shuffle", "batch_size", "n", "alpha", "epsilon",
    "axis", "name2", "log_dir", "histogram_freq", "nesterov", "amsgrad", "rho", "centered",
)

SCALARS = ("str", "int", "float", "bool")
DOTTED = ("np.ndarray", "tf.data.Dataset", "Optimizer", "tf.keras.losses.Loss", "Callable")
STR_WORDS = ("mnist", "np", "tf", "epoch", "batch", "adam", "sgd", "logs", "foo_bar", "relu", "r", "w")
CODE_SIMPLE = ("(1, 2)", "[]", "[1, 2]", "stdout", "foo(5)", "1 + 2", "foo(1.5)", "n", "x", "{}", "(28, 28)")
CODE_DOT = ("np.empty(0)", "tf.float32", "foo(1.5).bar", "np.zeros(3).T", "os.path.join('a', 'b')")


# ----------------------------------------------------------------------------- types
def norm_type(t):
    return ast.unparse(ast.parse(t, mode="eval"))


@st.composite
def type_and_defaults(draw, depth=0, allow_union_str=False, argparse_only=False, exclude=()):
    """-> (type string, strategy of admissible *explicit* defaults for that type (JSON form))."""
    kinds = ["scalar", "scalar", "scalar", "Optional", "List", "Literal"]
    if not argparse_only:
        kinds += ["dotted", "Union", "Tuple"]
    if depth >= 2 or (argparse_only and depth >= 1):
        kinds = ["scalar", "Literal"] + ([] if argparse_only else ["dotted"])
        if argparse_only:  # "Optional/List/Literal of scalars": one level only
            kinds = ["scalar"]
    k = draw(st.sampled_from(kinds))
    if k == "scalar":
        n = draw(st.sampled_from([x for x in SCALARS if not (x == "bool" and depth and "required_bool" in exclude)]))
        return n, scalar_defaults(n)
    if k == "dotted":
        n = draw(st.sampled_from(DOTTED))
        return n, None  # only a code expression is admissible: knob `code_default`
    if k == "Literal":
        if "int_literal" in exclude or draw(st.booleans()):
            vals = draw(st.lists(st.sampled_from(STR_WORDS), min_size=2 if "single_literal" in exclude else 1, max_size=3, unique=True))
            return norm_type("Literal[%s]" % ", ".join(repr(v) for v in vals)), st.sampled_from(vals)
        vals = draw(st.lists(st.integers(-3, 9), min_size=2, max_size=3, unique=True))
        return norm_type("Literal[%s]" % ", ".join(map(str, vals))), st.sampled_from(vals)
    if k == "Optional":
        inner, dflt = draw(type_and_defaults(depth=depth + 1, allow_union_str=allow_union_str, argparse_only=argparse_only, exclude=exclude))
        if inner.startswith("Optional["):
            return inner, dflt
        if "none_default" in exclude:
            return "Optional[%s]" % inner, dflt
        return "Optional[%s]" % inner, st.none() if dflt is None else st.one_of(st.none(), dflt)
    if k == "List":
        inner, _ = draw(type_and_defaults(depth=depth + 1, allow_union_str=allow_union_str, argparse_only=argparse_only, exclude=exclude))
        return "List[%s]" % inner, None
    if k == "Tuple":
        n = draw(st.integers(1, 3))
        inners = [draw(type_and_defaults(depth=depth + 1, allow_union_str=allow_union_str))[0] for _ in range(n)]
        return norm_type("Tuple[%s]" % ", ".join(inners)), None
    # Union of two distinct members; `str` only as a member when allowed (emit-side quote() defect shape)
    pool = [s for s in SCALARS if s != "str" or allow_union_str] + list(DOTTED[:3])
    members = draw(st.lists(st.sampled_from(pool), min_size=2, max_size=3, unique=True))
    dflts = [scalar_defaults(m) for m in members if m in SCALARS]
    return "Union[%s]" % ", ".join(members), st.one_of(*dflts) if dflts else None


def code(expr):
    return "```%s```" % expr


def scalar_defaults(n):
    if n == "int":
        return st.integers(-50, 1000)
    if n == "float":
        return st.sampled_from((0.5, 2.0, 1e-07, -0.25, 0.001, 3.14, 100.0, 0.0))
    if n == "bool":
        return st.booleans()
    return st.sampled_from(STR_WORDS)


# ----------------------------------------------------------------------------- prose
@st.composite
def prose(draw, min_words=2, max_words=7, punct=False):
    ws = draw(st.lists(st.sampled_from(WORDS), min_size=min_words, max_size=max_words))
    s = " ".join(ws)
    if punct:
        how = draw(st.sampled_from(("comma", "paren", "tick", "decimal", "second", "stop")))
        if how == "comma" and len(ws) > 2:
            s = "%s, %s" % (" ".join(ws[:2]), " ".join(ws[2:]))
        elif how == "paren":
            s = "%s (%s)" % (s, draw(st.sampled_from(WORDS)))
        elif how == "tick":
            s = "%s `%s`" % (s, draw(st.sampled_from(STR_WORDS)))
        elif how == "decimal":
            s = "%s e.g. 1.5 of %s" % (s, draw(st.sampled_from(WORDS)))
        elif how == "second":
            s = "%s. %s" % (s, " ".join(draw(st.lists(st.sampled_from(WORDS), min_size=2, max_size=4))).capitalize())
        else:
            s = s + "."
    return s


# ----------------------------------------------------------------------------- base IR and mutators
@st.composite
def base_param(draw, name, argparse_only=False, allow_union_str=False, exclude=()):
    typ, dflts = draw(type_and_defaults(argparse_only=argparse_only, allow_union_str=allow_union_str, exclude=exclude))
    if len(typ) > 58:  # long types are a knob of their own (C18); the base stays well inside the wrap width
        typ = draw(st.sampled_from(SCALARS))
        dflts = scalar_defaults(typ)
    p = OrderedDict(name=name, typ=typ, doc=draw(prose()))
    p["_dflts"] = dflts
    return p


def _pick(draw, params, pred=lambda p: True):
    idxs = [i for i, p in enumerate(params) if pred(p) and not p["name"].endswith("kwargs")]
    if not idxs:
        return None
    return params[draw(st.sampled_from(idxs))]


def _fresh_name(draw, params):
    used = {p["name"] for p in params}
    return draw(st.sampled_from([n for n in NAMES if n not in used]))


def _plain(ir):
    return [p for p in ir["params"] if not p["name"].endswith("kwargs")]


def _new_param(draw, ir, typ="int"):
    p = OrderedDict(name=_fresh_name(draw, ir["params"]), typ=typ, doc=draw(prose()))
    p["_dflts"] = scalar_defaults(typ) if typ in SCALARS else st.sampled_from(CODE_SIMPLE).map(code)
    ir["params"].insert(draw(st.integers(0, len(_plain(ir)))), p)
    return p


def _ensure_param(draw, ir, typ=None):
    """A parameter to mutate; creates one (of the given scalar type) when none suits."""
    p = _pick(draw, ir["params"], (lambda p: p.get("typ") == typ) if typ else (lambda p: True))
    return p if p is not None else _new_param(draw, ir, typ or "int")


def m_untyped_param(draw, ir):
    p = _ensure_param(draw, ir)
    p.pop("typ", None)
    if "default" in p and draw(st.booleans()):
        del p["default"]


def m_undocumented_param(draw, ir):  # typed, no prose, no default
    p = _ensure_param(draw, ir)
    p.pop("doc", None)
    p.pop("default", None)


def m_default_without_prose(draw, ir):
    p = _ensure_param(draw, ir)
    p.pop("doc", None)
    if "default" not in p:
        if p.get("_dflts") is None or "typ" not in p:
            p["typ"], p["_dflts"] = "int", scalar_defaults("int")
        p["default"] = draw(p["_dflts"])
        if p["default"] is None:
            p["default"] = 3
            p["typ"] = "Optional[int]"


def m_bare_param(draw, ir):
    p = _ensure_param(draw, ir)
    for k in ("typ", "doc", "default"):
        p.pop(k, None)


def m_str_with_dot(draw, ir):
    p = _ensure_param(draw, ir, "str")
    p["default"] = draw(st.sampled_from(("a.b", "~/tensorflow_datasets", "model.h5", "v1.x")))


def m_str_with_space(draw, ir):
    p = _ensure_param(draw, ir, "str")
    p["default"] = draw(st.sampled_from(("two words", "a b c", "so long and thanks for all the fish")))


def m_empty_str(draw, ir):
    p = _ensure_param(draw, ir, "str")
    p["default"] = ""


def m_str_with_quote(draw, ir):
    """The quote character the renderers themselves use around string defaults."""
    p = _ensure_param(draw, ir, "str")
    p["default"] = draw(st.sampled_from(('say "hi"', 'a "b.c" d', 'it\'s "so"')))


def m_str_with_bracket(draw, ir):
    """A string default with an unmatched bracket inside (bracket counting must not outlive the value it scans)."""
    p = _ensure_param(draw, ir, "str")
    p["default"] = draw(st.sampled_from(("(", "a [b", "f(x", "}", "[0")))


def m_str_with_squote(draw, ir):
    """The other quote character (and a full stop after it): must survive - nothing needs escaping."""
    p = _ensure_param(draw, ir, "str")
    p["default"] = draw(st.sampled_from(("it's", "it's v2.x only", "don't. stop")))


def m_union_with_str(draw, ir):
    p = _ensure_param(draw, ir)
    p["typ"] = draw(st.sampled_from(("Union[str, float]", "Union[int, str]", "Union[str, float, int]")))
    p["_dflts"] = st.one_of(st.sampled_from((0.5, 2.0)), st.integers(0, 9)) if "float" in p["typ"] else st.integers(0, 9)
    p["default"] = draw(p["_dflts"])


def m_code_default(draw, ir):
    p = _ensure_param(draw, ir)
    p["typ"] = draw(st.sampled_from(DOTTED + ("List[int]", "Tuple[int, int]")))
    expr = {"List[int]": "[1, 2]", "Tuple[int, int]": "(1, 2)"}.get(p["typ"]) or draw(st.sampled_from(CODE_SIMPLE))
    p["default"] = code(expr)
    p["_dflts"] = st.just(p["default"])


def m_code_default_strtype(draw, ir):
    """A code expression as default under a type that mentions str (the renderers quote such defaults)."""
    p = _ensure_param(draw, ir)
    p["typ"], expr = draw(st.sampled_from((("List[str]", "['a', 'b']"), ("Optional[List[str]]", "['a', 'b']"),
                                          ("Tuple[str, float]", "('a', 0.5)"), ("Union[str, int]", "foo(5)"))))
    p["default"] = code(expr)
    p["_dflts"] = st.just(p["default"])


def m_code_default_dot(draw, ir):
    p = _ensure_param(draw, ir)
    p["typ"] = draw(st.sampled_from(DOTTED))
    p["default"] = code(draw(st.sampled_from(CODE_DOT)))
    p["_dflts"] = st.just(p["default"])


MIXED_UNIONS = ("Union[int, np.ndarray]", "Optional[Union[float, np.ndarray]]", "Tuple[float, tf.data.Dataset]", "Union[bool, Optimizer]")


def m_mixed_union(draw, ir):
    """A type no command line can express that mixes a non-str scalar with a dotted / unknown name; no default."""
    p = _ensure_param(draw, ir)
    p["typ"] = draw(st.sampled_from(MIXED_UNIONS))
    p.pop("default", None)
    p["_dflts"] = None


def m_int_under_nonscalar_type(draw, ir):
    p = _ensure_param(draw, ir)
    p["typ"] = draw(st.sampled_from(("Optional[int]", "Union[int, float]", "Literal[-1, 0, 1]")))
    p["default"] = draw(st.sampled_from((-1, 0, 1)))
    p["_dflts"] = st.sampled_from((-1, 0, 1))


def m_none_default(draw, ir):
    p = _ensure_param(draw, ir)
    if not (p.get("typ") or "Optional[").startswith("Optional["):
        p["typ"] = "Optional[%s]" % p["typ"]
    p["default"] = None


def m_nodefault_after_default(draw, ir):
    while len(_plain(ir)) < 2:
        _new_param(draw, ir, draw(st.sampled_from(SCALARS)))
    plain = _plain(ir)
    i = draw(st.integers(0, len(plain) - 2))
    first, later = plain[i], plain[draw(st.integers(i + 1, len(plain) - 1))]
    if "default" not in first:
        if first.get("_dflts") is None or "typ" not in first:
            first["typ"], first["_dflts"] = "int", scalar_defaults("int")
        first["default"] = draw(first["_dflts"])
    later.pop("default", None)
    # `later` must be a shape without an implicit default: not Optional
    if (later.get("typ") or "").startswith("Optional["):
        later["typ"] = later["typ"][len("Optional[") : -1]


def m_kwargs_param(draw, ir):
    if any(p["name"].endswith("kwargs") for p in ir["params"]):
        return
    p = OrderedDict(name=draw(st.sampled_from(("kwargs", "data_loader_kwargs"))), typ="Optional[dict]", doc=draw(prose()))
    p["default"] = None
    ir["params"].append(p)


def m_kwargs_sole_default(draw, ir):
    """A trailing **kwargs-style parameter (None) after parameters that have NO default: nothing earlier in the text can
    lend it one."""
    keep = [p for p in ir["params"] if not p["name"].endswith("kwargs") and p.get("typ") in ("int", "str", "float")][:2]
    if not keep:
        keep = [_new_param(draw, ir, draw(st.sampled_from(("int", "str", "float"))))]
    for p in keep:
        p.pop("default", None)
    kw = OrderedDict(name=draw(st.sampled_from(("kwargs", "data_loader_kwargs"))), typ="Optional[dict]", doc=draw(prose()))
    kw["default"] = None
    ir["params"] = keep + [kw]


def m_kwargs_sole_default_bare(draw, ir):
    """The same with a **kwargs-style parameter that has a type but no prose."""
    m_kwargs_sole_default(draw, ir)
    ir["params"][-1].pop("doc", None)


def _short_type(draw):
    typ, _ = draw(type_and_defaults())
    return typ if len(typ) <= 58 else draw(st.sampled_from(SCALARS))  # long types are the knob `long_type`


def m_returns(draw, ir):
    ir["returns"] = OrderedDict(typ=_short_type(draw), doc=draw(prose()))


def m_returns_default(draw, ir):
    m_returns(draw, ir)
    ir["returns"]["typ"] = draw(st.sampled_from(("Tuple[np.ndarray, np.ndarray]", "Union[Tuple[int, int], List[int]]", "List[int]")))
    ir["returns"]["default"] = draw(
        st.sampled_from(("(np.empty(0), np.empty(0))", "```(1, 2)```", "```[1, 2]```", "```np.empty(0)```"))
    )


def m_returns_default_plain(draw, ir):
    """A return entry with prose, a type WITHOUT brackets and a code expression as default."""
    m_returns(draw, ir)
    ir["returns"]["typ"] = draw(st.sampled_from(("Model", "int", "tf.keras.Model", "np.ndarray")))
    ir["returns"]["default"] = draw(st.sampled_from(("```self.model```", "```np.empty(0)```", "```foo(5)```")))


def m_long_return_prose(draw, ir):
    """A return entry whose prose alone is longer than the default width (the ':returns:' line cannot fit on one line)."""
    m_returns_default(draw, ir)
    i = draw(st.integers(0, len(WORDS) - 1))
    ir["returns"]["doc"] = " ".join(WORDS[(i + 5 * j) % len(WORDS)] for j in range(draw(st.integers(16, 24)))) + " end"


def m_returns_untyped(draw, ir):
    ir["returns"] = OrderedDict(doc=draw(prose()))


def m_returns_undocumented(draw, ir):
    ir["returns"] = OrderedDict(typ=_short_type(draw))


def m_returns_only(draw, ir):
    ir["params"] = []
    if not ir.get("returns"):
        m_returns(draw, ir)


def m_no_params(draw, ir):
    ir["params"] = []
    ir.pop("returns", None)


def m_multiline_summary(draw, ir):
    if draw(st.integers(0, 2)) == 0:
        # three lines that are short each but longer than the width together (not a paragraph to re-flow)
        ir["doc"] = "\n".join([ir["doc"]] + [draw(prose(6, 8)) for _ in range(2)])
    else:
        ir["doc"] = "%s\n%s" % (ir["doc"], draw(prose()))


def m_multiline_prose(draw, ir):
    p = _pick(draw, ir["params"], lambda p: "doc" in p)
    if p is not None:
        p["doc"] = "%s\n%s" % (p["doc"], draw(prose()))


HYPHENATED = ("well-tested", "pre-trained", "look-up", "state-of-the-art", "re-use", "long-running")


def m_long_prose(draw, ir):
    p = _pick(draw, ir["params"], lambda p: "doc" in p)
    if p is not None:
        parts = [p["doc"]] + [draw(prose(5, 7)) for _ in range(draw(st.integers(3, 5)))]
        # hyphenated compounds: a wrapper may break lines at spaces only, or the re-joined prose reads "well- tested"
        for j in range(1, len(parts)):
            parts[j] = "%s %s" % (draw(st.sampled_from(HYPHENATED)), parts[j])
        p["doc"] = " ".join(parts)


def m_long_summary(draw, ir):
    ir["doc"] = " ".join([ir["doc"]] + [draw(prose(5, 7)) for _ in range(draw(st.integers(3, 5)))])


def m_long_type(draw, ir):
    p = _ensure_param(draw, ir)
    p["typ"] = "Union[%s]" % ", ".join(
        "Tuple[tf.data.Dataset, tf.data.Dataset, %s]" % d for d in DOTTED
    )
    p.pop("default", None)


def m_foreign_tokens(draw, ir):
    tok = draw(st.sampled_from(("Args", "Returns", "Parameters", "Raises", "param", "Kwargs")))
    where = _pick(draw, ir["params"], lambda p: "doc" in p)
    if where is None or draw(st.booleans()):
        ir["doc"] = "%s %s %s" % (ir["doc"], tok, draw(st.sampled_from(WORDS)))
    else:
        where["doc"] = "%s %s %s" % (where["doc"], tok, draw(st.sampled_from(WORDS)))


def m_foreign_tokens_strong(draw, ir):
    """Prose or summary that literally contains a section token of (another) docstring style."""
    tok = draw(st.sampled_from(("Args:", "Returns:", "Kwargs:", "Raises:", ":param x:", ":returns:", ":type x:")))
    where = _pick(draw, ir["params"], lambda p: "doc" in p)
    if where is None or draw(st.booleans()):
        ir["doc"] = "%s (see %s below)" % (ir["doc"], tok)
    else:
        where["doc"] = "%s (see %s below)" % (where["doc"], tok)


def m_default_words(draw, ir):
    p = _pick(draw, ir["params"], lambda p: "doc" in p)
    if p is not None:
        p["doc"] = "%s %s" % (p["doc"], draw(st.sampled_from(("by default", "the default one", "default behaviour"))))


def m_two_announcements(draw, ir):
    """Prose that announces a default twice, with two different phrases (the first one counts - whichever order a
    conversion tries the phrases in must not depend on the process)."""
    p = _pick(draw, ir["params"], lambda p: "doc" in p and "default" not in p)
    if p is not None:
        a, b = draw(st.sampled_from(((4, 1), (2, 8), (16, 32))))
        p["doc"] = "%s %s" % (p["doc"].rstrip("."), draw(st.sampled_from((
            "Default value is %d. On Windows it defaults to %d." % (a, b),
            "Defaults to %d. On small machines the default value is %d." % (a, b),
            "Default: %d. Otherwise defaults to %d." % (a, b)))))


def m_prose_punct(draw, ir):
    p = _pick(draw, ir["params"], lambda p: "doc" in p)
    if p is not None:
        p["doc"] = draw(prose(punct=True))


def m_prose_trailing_stop(draw, ir):
    p = _pick(draw, ir["params"], lambda p: "doc" in p)
    if p is not None and not p["doc"].endswith("."):
        p["doc"] += "."


def m_float_default(draw, ir):
    p = _ensure_param(draw, ir, "float")
    p["default"] = draw(scalar_defaults("float"))


def m_negative_int(draw, ir):
    p = _ensure_param(draw, ir, "int")
    p["default"] = draw(st.integers(-99, -1))


def m_zero_int(draw, ir):
    p = _ensure_param(draw, ir, "int")
    p["default"] = 0


def m_optional_zero(draw, ir):
    """An optional parameter with an explicit zero-valued default (0, 0.0, False): 'not required' AND a falsy value."""
    p = _ensure_param(draw, ir)
    t, v = draw(st.sampled_from((("int", 0), ("float", 0.0), ("bool", False))))
    p["typ"] = "Optional[%s]" % t
    p["default"] = v
    p["_dflts"] = st.just(v)  # (a later mutator that re-draws the default must draw one of THIS type)


def m_bool_false(draw, ir):
    p = _ensure_param(draw, ir, "bool")
    p["default"] = False


def m_int_literal(draw, ir):
    p = _ensure_param(draw, ir)
    vals = draw(st.lists(st.integers(-3, 9), min_size=2, max_size=3, unique=True))
    p["typ"] = norm_type("Literal[%s]" % ", ".join(map(str, vals)))
    p["_dflts"] = st.sampled_from(vals)
    if "default" in p or draw(st.booleans()):
        p["default"] = draw(st.sampled_from(vals))


def m_mixed_literal(draw, ir):
    """Literal whose members have different Python types and no default: the scalar type has to be chosen from a set."""
    p = _ensure_param(draw, ir)
    pool = [draw(st.integers(0, 9)), draw(st.sampled_from((0.5, 2.5, 1.25))), draw(st.sampled_from(STR_WORDS)), True]
    vals = draw(st.lists(st.sampled_from(pool), min_size=2, max_size=3, unique_by=lambda v: type(v).__name__))
    p["typ"] = norm_type("Literal[%s]" % ", ".join(repr(v) for v in vals))
    p["_dflts"] = st.sampled_from(vals)
    if draw(st.booleans()):
        p.pop("default", None)
    elif "default" in p:
        p["default"] = vals[0]


SPACED = ("nearest neighbour", "bilinear interpolation", "so long", "two words", "area average of pixels")


def m_spaced_literal(draw, ir):
    """Literal of strings that contain spaces (a type string with quoted text a wrapper may break inside), with a default."""
    p = _ensure_param(draw, ir)
    vals = draw(st.lists(st.sampled_from(SPACED), min_size=2, max_size=5, unique=True))
    p["typ"] = norm_type("Literal[%s]" % ", ".join(repr(v) for v in vals))
    p["_dflts"] = st.sampled_from(vals)
    p["default"] = draw(st.sampled_from(vals))


def m_single_literal(draw, ir):
    p = _ensure_param(draw, ir)
    v = draw(st.one_of(st.sampled_from(STR_WORDS), st.sampled_from(STR_WORDS), st.integers(0, 9), st.sampled_from((0.5, 2.5))))
    p["typ"] = "Literal[%r]" % (v,)
    p["_dflts"] = st.just(v)
    if "default" in p or draw(st.booleans()):
        p["default"] = v


def m_optional_prose(draw, ir):
    """Prose that begins with the word Optional / (Optional), on a parameter whose type already is Optional[...]."""
    p = _pick(draw, ir["params"], lambda p: "doc" in p and (p.get("typ") or "").startswith("Optional["))
    if p is None:
        p = _new_param(draw, ir, "int")
        p["typ"] = "Optional[int]"
        p["_dflts"] = st.one_of(st.none(), st.integers(0, 9))
    p["doc"] = "%s %s" % (draw(st.sampled_from(("Optional", "(Optional)"))), p["doc"])


def m_required_bool(draw, ir):
    p = _ensure_param(draw, ir, "bool")
    p.pop("default", None)


MUTATORS = OrderedDict(
    (k[2:], v) for k, v in list(globals().items()) if k.startswith("m_") and callable(v)
)


@st.composite
def ir_strategy(draw, allowed=(), forced=None, max_params=5, min_params=0, argparse_only=False, p_default=0.6,
                base_exclude=()):
    """Base IR (typed + documented parameters, admissible defaults) + a random subset of the `allowed`
    mutators + exactly the `forced` one (frontier)."""
    n = draw(st.integers(min_params, max_params))
    names = draw(st.lists(st.sampled_from(NAMES), min_size=n, max_size=n, unique=True))
    params = []
    seen_default = False
    for name in names:
        exclude = tuple(k for k in base_exclude if k not in allowed and k != forced)
        p = draw(base_param(name, argparse_only=argparse_only, exclude=exclude))
        # base shape: once a parameter has a default every later one has one too (the gap is a knob)
        if p["_dflts"] is not None and (seen_default or draw(st.floats(0, 1)) < p_default
                                        or (p["typ"] == "bool" and "required_bool" in exclude)):
            d = draw(p["_dflts"])
            if d is None and not p["typ"].startswith("Optional["):
                d = draw(scalar_defaults("int"))
            p["default"] = d
            seen_default = True
        params.append(p)
    ir = OrderedDict(doc=draw(prose(2, 6)), params=params)
    chosen = [k for k in allowed if k in MUTATORS and draw(st.integers(0, 9)) < 3]
    for k in chosen:
        MUTATORS[k](draw, ir)
    if forced is not None:
        MUTATORS[forced](draw, ir)
    if forced != "nodefault_after_default" and "nodefault_after_default" not in allowed:
        # base invariant (the gap is a knob of its own): parameters without default come first, stable otherwise
        plain = _plain(ir)
        rest = [p for p in ir["params"] if p["name"].endswith("kwargs")]
        ir["params"] = [p for p in plain if "default" not in p] + [p for p in plain if "default" in p] + rest
    if forced not in ("long_prose", "long_type") and not ({"long_prose", "long_type"} & set(allowed)):
        fit_width(ir, keep_return=forced == "long_return_prose")
    for p in ir["params"]:
        p.pop("_dflts", None)
    ir["params"] = [dict(p) for p in ir["params"]]
    if ir.get("returns") is not None:
        ir["returns"] = dict(ir["returns"])
    return dict(ir)


def est_width(p):
    """Upper estimate of the longest line any docstring style renders for this entry (wrapping styles only)."""
    doc = p.get("doc") or ""
    d = repr(p["default"]) if "default" in p else ""
    return max(len(doc) + len(d) + len(p.get("name", "")) + 28, len(p.get("name", "")) + len(p.get("typ") or "") + 16)


def fit_width(ir, limit=92, keep_return=False):
    """By construction (no rejection): shorten prose word by word until every entry fits the default width."""
    entries = list(ir["params"]) + ([dict(ir["returns"], name="return_type")] if ir.get("returns") else [])
    for p in ir["params"]:
        while "doc" in p and est_width(p) > limit and len(p["doc"].split()) > 1:
            lines = p["doc"].split("\n")
            longest = max(range(len(lines)), key=lambda i: len(lines[i]))
            words = lines[longest].split(" ")
            if len(words) > 1:
                lines[longest] = " ".join(words[:-1])
            else:
                lines.pop(longest)
            p["doc"] = "\n".join(lines)
    r = ir.get("returns")
    if r and "doc" in r and not keep_return:
        while len(r["doc"]) + len(r.get("default", "")) + 28 > limit and len(r["doc"].split()) > 1:
            r["doc"] = " ".join(r["doc"].split(" ")[:-1])


# ----------------------------------------------------------------------------- tags (recomputed from the IR)
def is_code(v):
    return isinstance(v, str) and len(v) > 6 and v.startswith("```") and v.endswith("```")


def type_names(t):
    try:
        tree = ast.parse(t, mode="eval")
    except SyntaxError:
        return set()
    return {n.id for n in ast.walk(tree) if isinstance(n, ast.Name)}


def param_tags(p, prev_has_default=False):
    t = set()
    typ, doc = p.get("typ"), p.get("doc")
    kw = p["name"].endswith("kwargs")
    if kw:
        t.add("kwargs_param")
    if typ is None:
        t.add("untyped_param")
    if doc is None:
        t.add("undocumented_param")
    if typ is None and doc is None:
        t.add("bare_param")
    has_default = "default" in p
    if has_default:
        t.add("has_default")
        d = p["default"]
        if doc is None:
            t.add("default_without_prose")
        if d is None:
            t.add("none_default")
            if typ is not None and not kw and "Optional" not in type_names(typ):
                t.add("none_under_nonoptional")
        elif isinstance(d, bool):
            t.add("bool_default")
            if d is False:
                t.add("bool_false")
        elif isinstance(d, int):
            t.add("int_default")
            if d < 0:
                t.add("negative_int")
            if d == 0:
                t.add("zero_int")
            if typ is not None and typ != "int":
                t.add("int_under_nonscalar_type")
        elif isinstance(d, float):
            t.add("float_default")
            if d == 0.0:
                t.add("zero_float")
            if typ is not None and "str" in type_names(typ):
                t.add("float_under_str_union")
        elif is_code(d):
            t.add("code_default")
            inner = d[3:-3]
            if re.search(r"\.(?!\d)", inner):
                t.add("code_default_dot")
            if typ is not None and "[" not in typ:
                t.add("code_default_plain_type")
            if typ is None:
                t.add("untyped_code_default")
            # the renderers only quote (and so delimit) a code default when the type mentions str or a string literal
            t.add("code_default_strtype" if typ is not None and ("str" in type_names(typ) or "'" in typ or '"' in typ) else "code_default_nonstr")
        elif isinstance(d, str):
            t.add("str_default")
            if "." in d:
                t.add("str_with_dot")
            if d == "":
                t.add("empty_str")
            if any(d.count(o) != d.count(c) for o, c in ("()", "[]", "{}")):
                t.add("str_with_bracket")
            if '"' in d:
                t.add("str_with_quote")
            if "'" in d:
                t.add("str_with_squote")
            if " " in d:
                t.add("str_with_space")
            if typ is not None and typ != "str":
                t.add("str_under_nonscalar_type")
            if typ is None:
                t.add("untyped_str_default")
        if typ is not None and not kw:
            names = type_names(typ)
            if "str" in names and not isinstance(d, str) and d is not None:
                t.add("nonstr_default_under_str_type")
            if d is not None and not is_code(d) and typ != type(d).__name__:
                t.add("default_type_ne_typ")
    else:
        if prev_has_default and not kw:
            t.add("nodefault_after_default")
        if typ is not None and "bool" in type_names(typ) and "Optional" not in type_names(typ):
            t.add("required_bool")
    if typ is not None:
        names = type_names(typ)
        for g in ("Optional", "List", "Literal", "Union", "Tuple"):
            if g in names:
                t.add("t_" + g)
        if typ in SCALARS:
            t.add("t_scalar")
        if "." in typ or names - set(SCALARS) - {"Optional", "List", "Literal", "Union", "Tuple", "dict"}:
            t.add("t_dotted")
        if "Union" in names and "str" in names:
            t.add("union_with_str")
        if re.search(r"Literal\[[^,\]]*\]", typ):
            t.add("single_literal")
        if "Literal" in names and re.search(r"'[^']* [^']*'", typ):
            t.add("spaced_literal")
        try:
            if "Literal" in names and len({type(n.value).__name__ for n in ast.walk(ast.parse(typ, mode="eval")) if isinstance(n, ast.Constant)}) > 1:
                t.add("mixed_literal")
        except SyntaxError:
            pass
        if len(typ) > 90:
            t.add("long_type")
        try:
            if "Literal" in names and any(isinstance(n, ast.Constant) and isinstance(n.value, int) for n in ast.walk(ast.parse(typ, mode="eval"))):
                t.add("int_literal")
        except SyntaxError:
            t.add("unparsable_type")
    if doc is not None:
        if "\n" in doc:
            t.add("multiline_prose")
        if len(doc) > 90:
            t.add("long_prose")
        if est_width(p) > 92:
            t.add("near_width")
        if doc.endswith("."):
            t.add("prose_trailing_stop")
        if any(c in doc for c in ",()`") or ". " in doc or "1.5" in doc:
            t.add("prose_punct")
        if "default" in doc.lower():
            t.add("default_words")
        if len(re.findall(r"(?i)defaults to |default value is |default: ", doc)) >= 2:
            t.add("two_announcements")
        if doc.startswith(("Optional", "(Optional)")):
            t.add("optional_prose")
            if typ is not None and not typ.startswith("Optional["):
                t.add("optional_prose_plain_type")
        if any(tok in doc for tok in ("Args", "Returns", "Parameters", "Raises", "param", "Kwargs")):
            t.add("foreign_tokens")
        if any(tok in doc for tok in ("Args:", "Returns:", "Kwargs:", "Raises:", ":param", ":returns:", ":type")):
            t.add("foreign_tokens_strong")
    return t


def tags_of(ir):
    tags = set()
    per = []
    prev = False
    for p in ir["params"]:
        pt = param_tags(p, prev)
        per.append(pt)
        tags |= pt
        if "default" in p and not p["name"].endswith("kwargs"):
            prev = True
    if not ir["params"]:
        tags.add("no_params")
    r = ir.get("returns")
    if r:
        tags.add("returns")
        if not ir["params"]:
            tags.add("returns_only")
        if "default" in r:
            tags.add("returns_default")
            if isinstance(r["default"], str) and re.search(r"\.(?!\d)", r["default"]):
                tags.add("returns_default_dot")
        if "typ" not in r:
            tags.add("returns_untyped")
        if "doc" not in r:
            tags.add("returns_undocumented")
        if "typ" in r and "[" not in r["typ"]:
            tags.add("returns_plain_type")
        if len(r.get("doc") or "") > 90:
            tags.add("long_return_prose")
    doc = ir.get("doc") or ""
    if "\n" in doc:
        tags.add("multiline_summary")
    if len(doc) > 90:
        tags.add("long_summary")
    if any(tok in doc for tok in ("Args", "Returns", "Parameters", "Raises", "param", "Kwargs")):
        tags.add("foreign_tokens")
    if any(tok in doc for tok in ("Args:", "Returns:", "Kwargs:", "Raises:", ":param", ":returns:", ":type")):
        tags.add("foreign_tokens_strong")
    tags.add("nparams=%d" % min(len(ir["params"]), 6))
    return tags, per


# ----------------------------------------------------------------------------- conversion / validity
def to_ir(case_ir, name=None, typ="static"):
    """JSON case IR -> the OrderedDict form doctrans works on (fresh objects each call)."""
    params = OrderedDict()
    for p in case_ir["params"]:
        d = OrderedDict()
        if "default" in p:
            d["default"] = NONE_STR if p["default"] is None else p["default"]
        if "doc" in p:
            d["doc"] = p["doc"]
        if "typ" in p:
            d["typ"] = p["typ"]
        params[p["name"]] = d
    r = case_ir.get("returns")
    returns = None
    if r:
        returns = OrderedDict((("return_type", OrderedDict((k, r[k]) for k in ("default", "doc", "typ") if k in r)),))
    return {"name": name, "type": typ, "doc": case_ir["doc"], "params": params, "returns": returns}


def valid_ir(ir):
    import keyword

    try:
        if not isinstance(ir, dict) or not isinstance(ir.get("doc"), str) or not ir["doc"].strip():
            return False
        if not isinstance(ir.get("params"), list):
            return False
        names = []
        for p in ir["params"]:
            if not isinstance(p, dict) or not isinstance(p.get("name"), str):
                return False
            n = p["name"]
            if not n.isidentifier() or keyword.iskeyword(n) or n in ("self", "cls", "argument_parser", "return_type"):
                return False
            names.append(n)
            if set(p) - {"name", "typ", "doc", "default"}:
                return False
            if "typ" in p:
                if not isinstance(p["typ"], str):
                    return False
                ast.parse(p["typ"], mode="eval")
            if "doc" in p and (not isinstance(p["doc"], str) or not p["doc"].strip()):
                return False
            if "default" in p and not isinstance(p["default"], (type(None), int, float, bool, str)):
                return False
            if n.endswith("kwargs") and p is not ir["params"][-1]:
                return False
        if len(set(names)) != len(names):
            return False
        r = ir.get("returns")
        if r is not None:
            if not isinstance(r, dict) or set(r) - {"typ", "doc", "default"} or not r:
                return False
            if "typ" in r:
                ast.parse(r["typ"], mode="eval")
            if "default" in r and not isinstance(r["default"], str):
                return False
            if "doc" in r and (not isinstance(r["doc"], str) or not r["doc"].strip()):
                return False
        return True
    except (SyntaxError, ValueError, TypeError):
        return False
