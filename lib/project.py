"""Generated sync projects (DESIGN.md 2.3): one file per kind, each target in a chosen pre-state."""
import ast
import contextlib
import io
import os
from argparse import Namespace

from . import domain, kinds

KIND_KEYS = ("argparse_function", "class", "function")
NAMES = {"argparse_function": "set_args", "class": "TargetClass", "function": "f_target"}
# "placeholder": the file binds the target's name to something that is not the definition yet (`TargetClass = None`)
STATES = ("missing", "empty", "absent", "stale", "agreeing", "placeholder")
HOLDER = "Holder"
K2KIND = {"argparse_function": "argparse", "class": "class", "function": "function"}


def plural(k):
    return {"argparse_function": "argparse_functions", "class": "classes", "function": "functions"}[k]


OUTER = "Outer"


def target_name(k, method, nested=False):
    if k == "function" and method:
        return "%s.%s" % (HOLDER, NAMES[k])
    if k == "class" and nested:
        return "%s.%s" % (OUTER, NAMES[k])
    return NAMES[k]


def emit_def(k, ir, method=False):
    """Node of kind k emitted from a doctrans-form IR with the options sync itself uses."""
    from doctrans import emit

    if k == "class":
        return emit.class_(ir, class_name=NAMES[k])
    if k == "argparse_function":
        return emit.argparse_function(ir, function_name=NAMES[k])
    return emit.function(ir, function_name=NAMES[k], function_type="self" if method else "static")


def def_source(k, ir, method=False, nested=False):
    from doctrans.source_transformer import to_code

    src = to_code(emit_def(k, ir, method))
    if k == "class" and nested:
        body = "\n".join("    " + l if l.strip() else l for l in src.splitlines())
        src = "class %s(object):\n    outer_attr = 1\n\n%s\n\n    def outer_method(self):\n        return 1\n" % (OUTER, body)
    if k == "function" and method:
        body = "\n".join("    " + l if l.strip() else l for l in src.splitlines())
        src = "class %s(object):\n    %s = 1\n\n%s\n" % (HOLDER, "marker_attr", body)
    return src


# (assignments whose target is not a bare name are part of ordinary modules: an attribute, a subscript, a tuple)
OTHER = {
    "argparse_function": "import os\n\nUNRELATED = 1\nos.environ['DOCTRANS_X'] = '3'\n\n\ndef helper(argument_parser):\n    return argument_parser\n",
    "class": "UNRELATED = 2\nMAJOR, MINOR = 1, 2\n\n\nclass Other(object):\n    x: int = 1\n\n\nOther.x = 5\n",
    "function": "UNRELATED = 3\nTABLE = {}\nTABLE['k'] = 1\n\n\ndef other(a, b=1):\n    return a\n",
}
OTHER_METHOD = "class %s(object):\n    marker_attr = 1\n\n    def other(self, a, b=1):\n        return a\n" % HOLDER


def write_state(path, k, state, gold_ir_factory, stale_ir_factory, method=False, black=True, nested=False):
    """Creates the pre-state of one target file. *_factory() return fresh doctrans-form IRs."""
    from black import Mode, format_str

    if state == "missing":
        if os.path.exists(path):
            os.remove(path)
        return
    if state == "empty":
        src = ""
    elif state == "absent":
        src = OTHER_METHOD if (k == "function" and method) else OTHER[k]
    elif state == "placeholder":
        src = OTHER[k] + "\n%s = None  # filled in by sync\n" % NAMES[k]
    else:
        ir = gold_ir_factory() if state == "agreeing" else stale_ir_factory()
        src = def_source(k, ir, method, nested)
        if black:
            src = format_str(src, mode=Mode(target_versions=set(), line_length=119, is_pyi=False, string_normalization=False))
    with open(path, "w") as f:
        f.write(src)


def handwritten(src, k, method):
    """The truth is user-written, not in doctrans' normal form: a comment, plain `ast.unparse` layout instead of black,
    and a docstring that ends with a line of its own. It describes the same interface."""
    tree = ast.parse(src)
    defs, _ = find_defs(src, k, method)
    for node in ast.walk(tree):
        if isinstance(node, (ast.ClassDef, ast.FunctionDef)) and node.name == NAMES[k] and node.body \
                and isinstance(node.body[0], ast.Expr) and isinstance(getattr(node.body[0].value, "value", None), str):
            node.body[0].value.value = node.body[0].value.value.rstrip() + "\n" + ("        " if method and k == "function" else "    ")
    return "# hand-written source of truth\nTRUTH_MARKER = 'kept'\n\n" + ast.unparse(tree) + "\n"


def run_sync(paths, truth, method, given, style="abs", nested=False, cli=False, extra=None):
    """API call exactly as __main__ builds it. `given`: kinds whose file is passed. `style`: how the files are spelled on
    the "command line" (absolute, relative to the cwd, through a symlinked directory); the truth file is passed
    canonicalised, as __main__ does."""
    from doctrans.conformance import ground_truth

    d = os.path.dirname(paths[truth])
    spell = lambda p: p
    link = None
    if style == "relative":
        spell = lambda p: os.path.basename(p)
    elif style == "symlink":
        link = d.rstrip(os.sep) + "_lnk"
        if not os.path.islink(link):
            os.symlink(d, link)
        spell = lambda p: os.path.join(link, os.path.basename(p))
    ns = {}
    for k in KIND_KEYS:
        ns[plural(k)] = ([spell(paths[k])] if k in given else []) + [spell(p) for p in (extra or {}).get(k, [])]
        ns[k + "_names"] = [target_name(k, method, nested)]
    ns["truth"] = truth
    out = io.StringIO()
    cwd = os.getcwd()
    try:
        if style == "relative":
            os.chdir(d)
        with contextlib.redirect_stdout(out), contextlib.redirect_stderr(io.StringIO()):
            if cli:
                # the command line itself: argv -> argparse -> validation -> ground_truth
                from doctrans.__main__ import main

                flag = {"argparse_function": "--argparse-function", "class": "--class", "function": "--function"}
                argv = ["sync", "--truth", truth]
                for k in KIND_KEYS:
                    for f in ns[plural(k)]:
                        argv += [flag[k], f]
                    argv += [flag[k] + "-name", ns[k + "_names"][0]]
                res = main(argv)
            else:
                res = ground_truth(Namespace(**ns), os.path.realpath(paths[truth]))
    finally:
        os.chdir(cwd)
        if link is not None and os.path.islink(link):
            os.remove(link)
    return res, out.getvalue()


def find_defs(src, k, method, nested=False):
    """-> list of definition nodes at the addressed location (model: exact path), and the parsed module."""
    tree = ast.parse(src)
    scope = tree.body
    if k == "class" and nested:
        outers = [n for n in tree.body if isinstance(n, ast.ClassDef) and n.name == OUTER]
        if not outers:
            return [], tree
        scope = outers[0].body
    if k == "function" and method:
        holders = [n for n in tree.body if isinstance(n, ast.ClassDef) and n.name == HOLDER]
        if not holders:
            return [], tree
        scope = holders[0].body
    want = ast.ClassDef if k == "class" else ast.FunctionDef
    return [n for n in scope if isinstance(n, want) and n.name == NAMES[k]], tree


def parse_def(k, node):
    from doctrans import parse

    if k == "class":
        return parse.class_(node)
    if k == "argparse_function":
        return parse.argparse_ast(node)
    return parse.function(node)


def snapshot(d):
    out = {}
    for name in sorted(os.listdir(d)):
        p = os.path.join(d, name)
        if os.path.isfile(p):
            with open(p, "rb") as f:
                out[name] = f.read()
    return out
