"""Child-process driver for C18 (DOCTRANS_LINE_LENGTH is read once at import: one process per width).

usage: python -m lib.c18_driver BATCH.json   -> JSON {key: {"wrap": parsed|error, "nowrap": parsed|error, "maxlen": n}}
"""
import json
import sys


def main(argv):
    from . import env

    env.bootstrap()
    from . import domain, kinds

    with open(argv[1]) as f:
        batch = json.load(f)
    out = {}
    flips = batch.get("flip") or []
    for i, cir in enumerate(batch["irs"]):
        for kind in kinds.KINDS:
            rec = {}
            for ww in (True, False):
                opts = kinds.wrap_opts(kind, int(flips[i]) if i < len(flips) else 0, ww)
                try:
                    text = kinds.emit_text(kind, domain.to_ir(cir), opts)
                except Exception as e:
                    rec["wrap" if ww else "nowrap"] = {"error": "emit:%s" % type(e).__name__}
                    continue
                rec["maxlen" if ww else "maxlen_nowrap"] = max((len(l) for l in text.splitlines()), default=0)
                try:
                    got = kinds.parse_text(kind, text, opts)
                    rec["wrap" if ww else "nowrap"] = {"ir": kinds.ir_to_case(got)}
                except Exception as e:
                    rec["wrap" if ww else "nowrap"] = {"error": "parse:%s" % type(e).__name__}
            out["%d:%s" % (i, kind)] = rec
    import doctrans.pure_utils as pu

    json.dump({"line_length": pu.line_length, "results": out}, sys.stdout, default=repr)


if __name__ == "__main__":
    main(sys.argv)
