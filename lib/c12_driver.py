"""Child-process driver for C12: converts every batch item through parse -> every emitter and prints one JSON document.

usage: python -m lib.c12_driver BATCH.json          (PYTHONHASHSEED is set by the parent)
"""
import ast
import hashlib
import json
import sys


def conversions(item):
    """-> list of (name, thunk) for one batch item; every thunk returns text."""
    from doctrans import emit, parse
    from doctrans.source_transformer import to_code

    from . import domain, kinds

    out = []
    if item["type"] == "definition":
        src = item["source"]

        def ir():
            tree = ast.parse(src)
            node = tree.body[0]
            if item["kind"] == "class_init":
                return parse.class_(node, merge_inner_function="__init__")
            if item["kind"] == "method":
                return parse.function(node.body[0])
            return parse.function(node)

        out.append(("parse", lambda: json.dumps(kinds.ir_to_case(ir()), sort_keys=True, default=repr)))
        out.append(("to_rest", lambda: emit.docstring(ir(), docstring_format="rest")))
        out.append(("to_numpydoc", lambda: emit.docstring(ir(), docstring_format="numpydoc")))
        out.append(("to_class", lambda: to_code(emit.class_(ir(), class_name="K"))))
        out.append(("to_function", lambda: to_code(emit.function(ir(), function_name="f", function_type="static"))))
        out.append(("to_argparse", lambda: to_code(emit.argparse_function(ir(), function_name="g"))))
    else:
        cir = item["ir"]
        for kind in kinds.KINDS:
            def one(kind=kind):
                opts = kinds.default_opts(kind)
                t1 = kinds.emit_text(kind, domain.to_ir(cir), opts)
                ir2 = kinds.parse_text(kind, t1, opts)
                return t1 + "\n#####\n" + kinds.emit_text(kind, ir2, opts)
            out.append(("rt_" + kind, one))
    return out


def run(thunk):
    try:
        return thunk()
    except Exception as e:  # deterministic too: the type of the failure is part of the output
        return "RAISE:%s" % type(e).__name__


def main(argv):
    from . import env

    env.bootstrap()
    with open(argv[1]) as f:
        batch = json.load(f)
    convs = []
    for i, item in enumerate(batch["items"]):
        for name, thunk in conversions(item):
            convs.append(((i, name), thunk))
    canonical = {}
    # "reverse": the same conversions, last one first - what ran earlier in the process must not matter
    for key, thunk in (reversed(convs) if batch.get("order") == "reverse" else convs):
        canonical["%d:%s" % key] = run(thunk)
    mism = []
    for pi, perm in enumerate(batch.get("perms", [])):
        for idx in perm:
            key, thunk = convs[idx % len(convs)]
            got = run(thunk)
            if got != canonical["%d:%s" % key]:
                mism.append({"perm": pi, "key": "%d:%s" % key})
    json.dump({"outputs": {k: hashlib.sha1(v.encode()).hexdigest() for k, v in canonical.items()},
               "texts": canonical if batch.get("full") else {}, "perm_mismatch": mism, "n_convs": len(convs)}, sys.stdout)


if __name__ == "__main__":
    main(sys.argv)
